#!/usr/bin/env python3
"""E3: crash-image enumeration for C04.

  enum.py <xsmc-binary> <tier> <out-json>

For each scripted history the driver (xsmc driver) is run once under strace. The syscall log is
interpreted into a little file-system state machine; for EVERY prefix of the log from the first
acknowledged operation on, a process-kill image (all completed syscalls applied) and, where
unsynced data exists, power-loss images (unsynced bytes dropped; torn tails of the last unsynced
write) are materialised and opened by a fresh `xsmc recover` process. The recovered observations
must equal the acknowledged operations plus a prefix of the effects of the operation in flight.
"""
import json, os, re, shutil, subprocess, sys, time
from concurrent.futures import ThreadPoolExecutor

HEX = re.compile(rb'\\x([0-9a-f]{2})')


def unhex(s: bytes) -> bytes:
    return HEX.sub(lambda m: bytes([int(m.group(1), 16)]), s)


class File:
    __slots__ = ("size", "ext", "durable_size", "durable_ext", "dirty", "mmap_content", "origin")

    def __init__(self, origin=None):
        self.origin = origin
        self.size = 0
        self.ext = []          # [(offset, bytes)] in application order
        self.durable_size = 0
        self.durable_ext = []
        self.dirty = []        # extents written since the last fsync, in order
        self.mmap_content = False

    def write(self, off, data):
        self.ext.append((off, data))
        self.dirty.append((off, data))
        self.size = max(self.size, off + len(data))

    def truncate(self, n):
        if n < self.size:
            self.ext = [(o, d[: max(0, n - o)]) for (o, d) in self.ext if o < n]
        self.size = n
        self.dirty.append(("trunc", n))

    def sync(self):
        self.durable_size = self.size
        self.durable_ext = list(self.ext)
        self.dirty = []

    def clone(self):
        f = File(self.origin)
        f.size, f.ext = self.size, list(self.ext)
        f.durable_size, f.durable_ext, f.dirty = self.durable_size, list(self.durable_ext), list(self.dirty)
        f.mmap_content = self.mmap_content
        return f


class FS:
    def __init__(self, root):
        self.root = root
        self.files = {}   # path -> File
        self.dirs = set()
        self.offs = {}    # open file description id -> offset
        self.opath = {}   # open file description id -> current path

    def snapshot(self):
        s = FS(self.root)
        s.files = {p: f.clone() for p, f in self.files.items()}
        s.dirs = set(self.dirs)
        s.offs = dict(self.offs)
        s.opath = dict(self.opath)
        return s


class HarnessError(Exception):
    pass


def parse_trace(path, root):
    """Returns the list of events: ("mut", fn) closures applied to an FS, or ("ack", obj)."""
    events = []
    pending = {}
    fds = {}          # fd -> {"path":..., "off": [int], "append": bool}  (threads share the table)
    lines = open(path, "rb").read().split(b"\n")
    nofd = [0]

    def is_ours(p):
        return p is not None and (p == root or p.startswith(root + "/"))

    for raw in lines:
        if not raw.strip():
            continue
        m = re.match(rb"(\d+)\s+(.*)$", raw)
        if not m:
            continue
        pid, rest = m.group(1), m.group(2)
        if rest.startswith(b"+++") or rest.startswith(b"---"):
            continue
        if rest.endswith(b"<unfinished ...>"):
            pending[pid] = rest[: -len(b"<unfinished ...>")]
            continue
        mm = re.match(rb"<\.\.\. (\w+) resumed>(.*)$", rest)
        if mm:
            rest = pending.pop(pid, b"") + mm.group(2)
        mm = re.match(rb"(\w+)\((.*)\)\s+= (-?\d+|\?)(.*)$", rest, re.S)
        if not mm:
            continue
        name, args, ret = mm.group(1).decode(), mm.group(2), mm.group(3)
        if ret == b"?":
            continue
        ret = int(ret)

        def strargs():
            return [unhex(x).decode("utf-8", "surrogateescape") for x in re.findall(rb'"((?:[^"\\]|\\.)*)"', args)]

        if name in ("openat", "open", "creat"):
            if ret < 0:
                continue
            sa = strargs()
            p = sa[0] if sa else None
            if not is_ours(p):
                fds.pop(ret, None)
                continue
            flags = args
            nofd[0] += 1
            ent = {"path": p, "ofd": nofd[0], "append": b"O_APPEND" in flags, "dir": b"O_DIRECTORY" in flags}
            fds[ret] = ent
            creat = b"O_CREAT" in flags
            trunc = b"O_TRUNC" in flags

            def f(fs, p=p, creat=creat, trunc=trunc, ofd=ent["ofd"]):
                fs.opath[ofd] = p
                if p in fs.dirs:
                    return
                if p not in fs.files:
                    if creat:
                        fs.files[p] = File(p)
                elif trunc:
                    fs.files[p].truncate(0)
            events.append(("mut" if (creat or trunc) else "seek", f, "%s %s" % (name, p[len(root):])))
        elif name == "close":
            fds.pop(int(args.split(b",")[0]), None)
        elif name == "fcntl":
            parts = args.split(b",")
            fd = int(parts[0])
            if b"F_DUPFD" in args and ret >= 0 and fd in fds:
                fds[ret] = fds[fd]   # shared open file description
        elif name in ("dup", "dup2", "dup3"):
            fd = int(args.split(b",")[0])
            if ret >= 0 and fd in fds:
                fds[ret] = fds[fd]
        elif name in ("write", "pwrite64"):
            fd = int(args.split(b",")[0])
            if fd == 1 and ret > 0:
                data = unhex(re.search(rb'"((?:[^"\\]|\\.)*)"', args, re.S).group(1))
                if data.startswith(b"ACK "):
                    events.append(("ack", json.loads(data[4:].decode()), "ACK"))
                continue
            if fd not in fds or ret <= 0:
                continue
            ent = fds[fd]
            data = unhex(re.search(rb'"((?:[^"\\]|\\.)*)"', args, re.S).group(1))[:ret]
            if len(data) != ret:
                raise HarnessError("strace truncated a write (%d of %d bytes)" % (len(data), ret))
            if name == "pwrite64":
                off = int(args.rsplit(b",", 1)[1])
            else:
                off = None

            def f(fs, ent=ent, data=data, off=off):
                fl = fs.files.get(fs.opath.get(ent["ofd"]))
                if fl is None:
                    raise HarnessError("write to unknown file " + str(fs.opath.get(ent["ofd"])))
                if off is not None:
                    fl.write(off, data)
                else:
                    o = fl.size if ent["append"] else fs.offs.get(ent["ofd"], 0)
                    fl.write(o, data)
                    fs.offs[ent["ofd"]] = o + len(data)
            events.append(("mut", f, "%s %s %d" % (name, ent["path"][len(root):], ret)))
        elif name == "writev":
            fd = int(args.split(b",")[0])
            if fd in fds:
                raise HarnessError("writev on a store file is not interpreted")
        elif name == "lseek":
            parts = args.split(b",")
            fd = int(parts[0])
            if fd in fds and ret >= 0:
                ent = fds[fd]
                events.append(("seek", (lambda fs, ent=ent, r=ret: fs.offs.__setitem__(ent["ofd"], r)), "lseek"))
        elif name in ("ftruncate", "fallocate"):
            parts = args.split(b",")
            fd = int(parts[0])
            if fd not in fds or ret != 0:
                continue
            ent = fds[fd]
            if name == "ftruncate":
                n = int(parts[1])

                def f(fs, ent=ent, n=n):
                    fs.files[fs.opath[ent["ofd"]]].truncate(n)
            else:
                mode, off, ln = int(parts[1].strip() or 0) if parts[1].strip().isdigit() else 0, int(parts[2]), int(parts[3])
                if mode != 0:
                    raise HarnessError("fallocate mode %r not interpreted" % parts[1])

                def f(fs, ent=ent, n=off + ln):
                    fl = fs.files[fs.opath[ent["ofd"]]]
                    if n > fl.size:
                        fl.truncate(n)
                    fl.mmap_content = True   # cacache fills size-hinted files through mmap
            events.append(("mut", f, "%s %s" % (name, ent["path"][len(root):])))
        elif name in ("fsync", "fdatasync"):
            fd = int(args.split(b",")[0])
            if fd not in fds or ret != 0:
                continue
            ent = fds[fd]

            def f(fs, ent=ent):
                fl = fs.files.get(fs.opath.get(ent["ofd"]))
                if fl is not None:
                    fl.sync()
            events.append(("mut", f, "%s %s" % (name, ent["path"][len(root):])))
        elif name in ("mkdir", "mkdirat"):
            sa = strargs()
            if ret == 0 and sa and is_ours(sa[0]):
                events.append(("mut", (lambda fs, p=sa[0]: fs.dirs.add(p)), "mkdir " + sa[0][len(root):]))
        elif name in ("rename", "renameat", "renameat2"):
            sa = strargs()
            if ret == 0 and len(sa) >= 2 and (is_ours(sa[0]) or is_ours(sa[1])):
                def f(fs, a=sa[0], b=sa[1]):
                    if a in fs.files:
                        fs.files[b] = fs.files.pop(a)
                    elif a in fs.dirs:
                        raise HarnessError("directory rename not interpreted")
                    for o, pth in list(fs.opath.items()):
                        if pth == a:
                            fs.opath[o] = b
                events.append(("mut", f, "rename %s -> %s" % (sa[0][len(root):], sa[1][len(root):])))
        elif name in ("unlink", "unlinkat", "rmdir"):
            sa = strargs()
            if ret == 0 and sa and is_ours(sa[0]):
                def f(fs, p=sa[0]):
                    fs.files.pop(p, None)
                    fs.dirs.discard(p)
                events.append(("mut", f, "unlink " + sa[0][len(root):]))
        elif name in ("link", "linkat", "symlink", "symlinkat", "copy_file_range", "sendfile", "pwritev", "pwritev2", "sync_file_range", "mremap"):
            sa = strargs()
            if any(is_ours(x) for x in sa):
                raise HarnessError("syscall %s on the store is not interpreted" % name)
    return events


def materialise(fs, final_root, dest, power_loss=False, torn=None):
    """Write the image. power_loss: fjall files keep only durable data (+ `torn` = (path, extent_index, keep_bytes))."""
    os.makedirs(dest, exist_ok=True)
    for d in sorted(fs.dirs):
        os.makedirs(os.path.join(dest, os.path.relpath(d, fs.root)), exist_ok=True)
    for p, fl in fs.files.items():
        rel = os.path.relpath(p, fs.root)
        out = os.path.join(dest, rel)
        os.makedirs(os.path.dirname(out), exist_ok=True)
        # C04 quantifies power loss over *journal* bytes not yet fsynced; every other file keeps
        # its process-kill content (lsm-tree renames its `levels` manifest into place before it
        # fsyncs it -- a dependency-level weakness outside the statement, see DESIGN.md)
        in_fjall = rel.startswith("fjall/journals/")
        if fl.mmap_content:
            # content written through mmap never shows up in write(): the bytes come from the
            # final directory, where the (write-once) file lives under its final name
            src = _final_names.get(fl.origin)
            if src and os.path.exists(src):
                shutil.copyfile(src, out)
            else:
                write_extents(out, fl.size, fl.ext)
            continue
        if not in_fjall:
            write_extents(out, fl.size, fl.ext)
            continue
        if power_loss:
            ext = list(fl.durable_ext)
            size = fl.durable_size
            if torn and torn[0] == p:
                # replay dirty extents up to the torn one
                upto, keep = torn[1], torn[2]
                k = 0
                for e in fl.dirty:
                    if e[0] == "trunc":
                        continue
                    if k < upto:
                        ext.append(e)
                        size = max(size, e[0] + len(e[1]))
                    elif k == upto:
                        ext.append((e[0], e[1][:keep]))
                        size = max(size, e[0] + keep)
                    k += 1
            write_extents(out, size, ext)
        else:
            write_extents(out, fl.size, fl.ext)


_final_names = {}


def write_extents(out, size, ext):
    with open(out, "wb") as f:
        f.truncate(size)
        for (o, d) in ext:
            if o >= size:
                continue
            f.seek(o)
            f.write(d[: size - o])


def apply_effects(state, effects):
    """state = (frames dict, set of ids that may or may not still be there)"""
    s, opt = dict(state[0]), set(state[1])
    for e in effects:
        if "ins" in e:
            s[e["ins"]["id"]] = e["ins"]
        elif "optdel" in e:
            if e["optdel"] in s:
                opt.add(e["optdel"])
        else:
            s.pop(e["del"], None)
            opt.discard(e["del"])
    return (s, opt)


def check_recovered(rec, allowed_states, kill_image, label):
    """rec: parsed RECOVERED json. Returns list of problems (strings)."""
    probs = []
    got = {f["id"]: f for f in rec["all"]}
    ids_sorted = [f["id"] for f in rec["all"]]
    if ids_sorted != sorted(ids_sorted):
        probs.append("all-contexts stream not in id order")
    match = None
    for j, (frames, opt) in enumerate(allowed_states):
        # frames the collector took without acknowledgement may or may not be there
        need = {k: v for k, v in frames.items() if k not in opt}
        if all(got.get(k) == v for k, v in need.items()) and all(k in frames and frames[k] == v for k, v in got.items()):
            match = j
            break
    if match is None:
        want = allowed_states[0][0]
        probs.append("recovered frames %s are neither the acknowledged state %s nor that state plus a prefix of the in-flight operation's effects" % (sorted(got), sorted(want)))
        return probs
    st = dict(got)
    # the three access paths and head agree (C05 on the recovered store)
    for fid, f in st.items():
        g = rec["gets"].get(fid)
        if g != f:
            probs.append("frame %s visible in the stream but get() returns %r" % (fid, g))
        ctx = f["context_id"]
        if ctx in rec["per_ctx"] and fid not in rec["per_ctx"][ctx]:
            probs.append("frame %s is in the all-contexts stream but not in its context stream" % fid)
    for fid, g in rec["gets"].items():
        if g is not None and fid not in st:
            probs.append("get(%s) returns a frame that is not in the stream" % fid)
    for ctx, ids in rec["per_ctx"].items():
        want = sorted(i for i, f in st.items() if f["context_id"] == ctx)
        if ids != want:
            probs.append("context stream %s = %s, expected %s" % (ctx, ids, want))
    for h in rec["heads"]:
        cands = sorted(i for i, f in st.items() if f["context_id"] == h["ctx"] and f["topic"] == h["topic"])
        want = cands[-1] if cands else None
        if h["id"] != want:
            probs.append("head(%r,%s) = %s, expected %s" % (h["topic"], h["ctx"], h["id"], want))
    zero = "0000000000000000000000000"
    want_reg = sorted([zero] + [i for i, f in st.items() if f["topic"] == "xs.context" and f["context_id"] == zero])
    if sorted(rec["registry"]) != want_reg:
        probs.append("usable contexts %s, registration frames stored %s" % (sorted(rec["registry"]), want_reg))
    for c, ok in rec["usable"].items():
        if ok != (c in want_reg):
            probs.append("append into context %s %s, registration stored: %s" % (c, "accepted" if ok else "rejected", c in want_reg))
    raw = rec["raw"]
    if not (raw["stream"] == raw["idx_topic"] == raw["idx_context"] == len(st)):
        probs.append("partitions out of step: stream %d idx_topic %d idx_context %d frames %d" % (raw["stream"], raw["idx_topic"], raw["idx_context"], len(st)))
    if kill_image:
        for h, n in rec["cas"].items():
            if n is None:
                probs.append("visible frame carries hash %s but its content is not readable" % h)
    return probs


def run_history(xsmc, hist, tier, work, stats, violations, samples):
    root = os.path.join(work, hist, "store")
    os.makedirs(root)
    trace = os.path.join(work, hist, "trace.txt")
    r = subprocess.run(["strace", "-f", "-xx", "-s", "10000000", "-o", trace, "-e", "trace=file,desc,%process", xsmc, "driver", root, hist],
                       stdout=subprocess.PIPE, stderr=subprocess.PIPE, timeout=120)
    if r.returncode != 0:
        raise HarnessError("driver failed: %s" % r.stderr.decode()[-400:])
    events = parse_trace(trace, root)
    acks = [i for i, e in enumerate(events) if e[0] == "ack"]
    if len(acks) < 5:
        raise HarnessError("too few ACK markers in the trace")
    # mmap-written files: remember where they end up (path at the end of the trace)
    fs = FS(root)
    for e in events:
        if e[0] in ("mut", "seek"):
            e[1](fs)
    for p, fl in fs.files.items():
        if fl.mmap_content:
            _final_names[fl.origin] = p
    # sanity: the interpreted final state must equal the real final directory (fjall part)
    for p, fl in fs.files.items():
        rel = os.path.relpath(p, root)
        if not rel.startswith("fjall/"):
            continue
        real = os.path.join(root, rel)
        if not os.path.exists(real) or os.path.getsize(real) != fl.size:
            raise HarnessError("interpreter diverges from the real directory at %s (%s vs %s)" % (rel, os.path.exists(real) and os.path.getsize(real), fl.size))
        tmp = real + ".chk"
        write_extents(tmp, fl.size, fl.ext)
        same = open(tmp, "rb").read() == open(real, "rb").read()
        os.remove(tmp)
        if not same:
            raise HarnessError("interpreter diverges from the real directory: content of %s" % rel)
    dirsync_ok = check_dir_fsyncs(events)
    stats["dir_fsync_after_create_or_rename"] = stats.get("dir_fsync_after_create_or_rename", True) and dirsync_ok

    # probe file for the recovery process
    ids, ctxs, topics = set(), set(), set()
    for i in acks:
        for ef in events[i][1].get("effects", []):
            if "ins" in ef:
                ids.add(ef["ins"]["id"]); topics.add(ef["ins"]["topic"])
                if ef["ins"]["topic"] == "xs.context":
                    ctxs.add(ef["ins"]["id"])
            else:
                ids.add(ef.get("del") or ef.get("optdel"))
    topics.add("nosuch")
    probe = os.path.join(work, hist, "probe.json")
    json.dump({"ids": sorted(ids), "ctxs": sorted(ctxs), "topics": sorted(topics)}, open(probe, "w"))

    # enumerate crash points
    jobs = []   # (label, kind, image_dir, allowed_states)
    fs = FS(root)
    state = ({}, set())
    first_ack = acks[0]
    ack_pos = 0
    thorough = tier == "thorough"
    nimg = 0
    for k, e in enumerate(events):
        if e[0] == "ack":
            state = apply_effects(state, e[1].get("effects", []))
            ack_pos += 1
            if k <= first_ack:
                continue
            # the moment right after an acknowledgement is a crash point of its own: the files
            # are as they were, what has been promised is not
        else:
            e[1](fs)
            if e[0] != "mut" or k < first_ack:
                continue
        # in-flight operation = the next ACK after k
        nxt = next((events[i][1] for i in acks if i > k), None)
        allowed = [state]
        if nxt:
            effs = nxt.get("effects", [])
            for j in range(1, len(effs) + 1):
                allowed.append(apply_effects(state, effs[:j]))
        label = "%s@%d after[%s]" % (hist, k, e[2] if e[0] != "ack" else "ACK " + str(e[1].get("op")))
        snap = fs.snapshot()
        img = os.path.join(work, hist, "img-%d-kill" % k)
        jobs.append((label + " kill", "kill", img, allowed, snap, None))
        nimg += 1
        # power loss: only meaningful when some fjall file has unsynced data
        for p, fl in snap.files.items():
            if not os.path.relpath(p, root).startswith("fjall/journals/"):
                continue
            writes = [d for d in fl.dirty if d[0] != "trunc"]
            if not writes:
                continue
            img = os.path.join(work, hist, "img-%d-pl-%d" % (k, nimg))
            jobs.append((label + " power-loss(unsynced dropped: %s)" % os.path.relpath(p, root), "power", img, allowed, snap, (p, -1, 0)))
            nimg += 1
            last = len(writes) - 1
            n = len(writes[last][1])
            cuts = set([1, 2, n // 2, n - 2, n - 1]) if not thorough else set(list(range(1, min(n, 1024))) + list(range(1024, n, 64)) + [n - 1])
            # marker boundaries of the journal batch: item headers start with the partition name
            data = writes[last][1]
            for mk in (b"stream", b"idx_topic", b"idx_context", b"FJL"):
                i = data.find(mk)
                while i >= 0:
                    cuts.update([i - 1, i, i + 1])
                    i = data.find(mk, i + 1)
            for c in sorted(x for x in cuts if 0 < x < n):
                img = os.path.join(work, hist, "img-%d-torn-%d" % (k, nimg))
                jobs.append((label + " torn(last unsynced write of %s cut at %d/%d)" % (os.path.relpath(p, root), c, n), "torn", img, allowed, snap, (p, last, c)))
                nimg += 1

    # second generation: the process is killed inside an import / remove, the store is reopened
    # (recovery runs), the client - which never got an answer - sends the same request again and
    # is acknowledged; from then on that operation must survive a power loss as well
    g2 = []
    fs = FS(root)
    state = ({}, set())
    for k, e in enumerate(events):
        if e[0] == "ack":
            state = apply_effects(state, e[1].get("effects", []))
            continue
        e[1](fs)
        if e[0] != "mut" or k < first_ack:
            continue
        nxt = next((events[i][1] for i in acks if i > k), None)
        if not nxt or nxt.get("op") not in ("import", "import-again", "remove", "remove-collected", "remove-expired"):
            continue
        if not e[2].startswith(("write /fjall/journals", "pwrite64 /fjall/journals", "fsync /fjall/journals", "fdatasync /fjall/journals")):
            continue
        g2.append((k, fs.snapshot(), state, nxt))
    if tier != "thorough":
        g2 = g2[:: max(1, len(g2) // 12)][:14]

    def second_generation(item):
        k, snap, state_k, nxt = item
        out = []
        d2 = os.path.join(work, hist, "g2-%d" % k, "store")
        os.makedirs(os.path.dirname(d2), exist_ok=True)
        materialise(snap, root, d2, power_loss=False)
        spec = os.path.join(work, hist, "g2-%d" % k, "retry.json")
        effs = nxt.get("effects", [])
        if nxt["op"].startswith("import"):
            # the frame of the import in flight (import-again carries no effect: same frame as the import before it)
            frame = next((ef["ins"] for ef in effs if "ins" in ef), None) or next((f for f in state_k[0].values() if f["topic"] == "imp"), None)
            if frame is None:
                return out
            retry = {"op": "import", "frame": frame}
            retry_effects = [{"ins": frame}]
        else:
            fid = next((ef["del"] for ef in effs if "del" in ef), None)
            if fid is None:
                return out
            retry = {"op": "remove", "id": fid}
            retry_effects = [{"del": fid}]
        json.dump(retry, open(spec, "w"))
        trace2 = os.path.join(work, hist, "g2-%d" % k, "trace.txt")
        r = subprocess.run(["strace", "-f", "-xx", "-s", "10000000", "-o", trace2, "-e", "trace=file,desc,%process", xsmc, "driver2", d2, spec],
                           stdout=subprocess.PIPE, stderr=subprocess.PIPE, timeout=120)
        label0 = "%s@%d after[%s] kill, reopen, retry of %s" % (hist, k, events[k][2], nxt["op"])
        if r.returncode != 0:
            return [(label0, "kill", ["the store does not reopen: driver2 exit %s: %s" % (r.returncode, r.stderr.decode(errors="replace")[-300:].replace("\n", " | "))], None)]
        ev2 = parse_trace(trace2, d2)
        acks2 = [i for i, e2 in enumerate(ev2) if e2[0] == "ack"]
        if len(acks2) < 2:
            raise HarnessError("driver2: missing ACK markers")
        # the file-system state of the first generation (what is durable, what is only in the page
        # cache) carries over; the dead process's descriptors do not
        fs2 = FS(d2)
        for pth, fl in snap.files.items():
            fs2.files[d2 + pth[len(root):]] = fl.clone()
        fs2.dirs = set(d2 + x[len(root):] for x in snap.dirs)
        want = apply_effects(state_k, retry_effects)
        retry_ack = acks2[1]
        n2 = 0
        for j, e2 in enumerate(ev2):
            if e2[0] == "ack":
                continue
            e2[1](fs2)
            if j < retry_ack or e2[0] != "mut":
                continue
            for kind in ("kill", "power"):
                snap2 = fs2.snapshot()
                if kind == "power" and not any(os.path.relpath(pp, d2).startswith("fjall/journals/") and [d for d in ff.dirty if d[0] != "trunc"] for pp, ff in snap2.files.items()):
                    continue
                img = os.path.join(work, hist, "g2-%d" % k, "img-%d-%s" % (j, kind))
                materialise(snap2, d2, img, power_loss=(kind == "power"), torn=None)
                rr = subprocess.run([xsmc, "recover", img, probe], stdout=subprocess.PIPE, stderr=subprocess.PIPE, timeout=60)
                shutil.rmtree(img, ignore_errors=True)
                m = re.search(r"RECOVERED (.*)", rr.stdout.decode(errors="replace"))
                label = "%s, then %s after[%s]" % (label0, "power loss" if kind == "power" else "kill", e2[2])
                if rr.returncode != 0 or not m:
                    out.append((label, kind, ["the store does not reopen: exit %s: %s" % (rr.returncode, rr.stderr.decode(errors="replace")[-300:].replace("\n", " | "))], None))
                else:
                    rec = json.loads(m.group(1))
                    out.append((label, kind, check_recovered(rec, [want], kind == "kill", label), json.dumps(sorted(f["id"] for f in rec["all"]))))
                n2 += 1
        # the state right after the retry's acknowledgement, if nothing else was written after it
        if n2 == 0:
            for kind in ("kill", "power"):
                snap2 = fs2.snapshot()
                img = os.path.join(work, hist, "g2-%d" % k, "img-end-%s" % kind)
                materialise(snap2, d2, img, power_loss=(kind == "power"), torn=None)
                rr = subprocess.run([xsmc, "recover", img, probe], stdout=subprocess.PIPE, stderr=subprocess.PIPE, timeout=60)
                shutil.rmtree(img, ignore_errors=True)
                m = re.search(r"RECOVERED (.*)", rr.stdout.decode(errors="replace"))
                label = "%s, then %s after the acknowledgement" % (label0, "power loss" if kind == "power" else "kill")
                if rr.returncode != 0 or not m:
                    out.append((label, kind, ["the store does not reopen: exit %s" % rr.returncode], None))
                else:
                    rec = json.loads(m.group(1))
                    out.append((label, kind, check_recovered(rec, [want], kind == "kill", label), json.dumps(sorted(f["id"] for f in rec["all"]))))
        shutil.rmtree(os.path.join(work, hist, "g2-%d" % k), ignore_errors=True)
        return out

    # third generation: a fault DURING RECOVERY. The process is killed at crash point k, a second
    # process reopens the store and is itself killed (or the power fails) after any prefix of the
    # file-system mutations of the recovery - including the background work the reopen triggers;
    # a third process must open what is left and find the same acknowledged history.
    g3 = [j for j in jobs if j[1] == "kill"]
    if tier != "thorough":
        g3 = g3[:: max(1, len(g3) // 5)][:6]

    def third_generation(job):
        label_k, _kind, _img, allowed, snap, _torn = job
        tag = "g3-%d" % jobs.index(job)
        out = []
        d3 = os.path.join(work, hist, tag, "store")
        os.makedirs(os.path.dirname(d3), exist_ok=True)
        materialise(snap, root, d3, power_loss=False)
        spec = os.path.join(work, hist, tag, "none.json")
        json.dump({"op": "none", "settle_ms": 300}, open(spec, "w"))
        trace3 = os.path.join(work, hist, tag, "trace.txt")
        r = subprocess.run(["strace", "-f", "-xx", "-s", "10000000", "-o", trace3, "-e", "trace=file,desc,%process", xsmc, "driver2", d3, spec],
                           stdout=subprocess.PIPE, stderr=subprocess.PIPE, timeout=120)
        label0 = "%s, reopen" % label_k
        if r.returncode != 0:
            shutil.rmtree(os.path.join(work, hist, tag), ignore_errors=True)
            return [(label0, "kill", ["the store does not reopen: driver2 exit %s: %s" % (r.returncode, r.stderr.decode(errors="replace")[-300:].replace("\n", " | "))], None, 0)]
        ev3 = parse_trace(trace3, d3)
        fs3 = FS(d3)
        for pth, fl in snap.files.items():
            fs3.files[d3 + pth[len(root):]] = fl.clone()
        fs3.dirs = set(d3 + x[len(root):] for x in snap.dirs)
        nmut = 0
        for j, e3 in enumerate(ev3):
            if e3[0] == "ack":
                continue
            e3[1](fs3)
            if e3[0] != "mut":
                continue
            nmut += 1
            for kind in ("kill", "power"):
                snap3 = fs3.snapshot()
                if kind == "power" and not any(os.path.relpath(pp, d3).startswith("fjall/journals/") and [d for d in ff.dirty if d[0] != "trunc"] for pp, ff in snap3.files.items()):
                    continue
                img = os.path.join(work, hist, tag, "img-%d-%s" % (j, kind))
                materialise(snap3, d3, img, power_loss=(kind == "power"), torn=None)
                rr = subprocess.run([xsmc, "recover", img, probe], stdout=subprocess.PIPE, stderr=subprocess.PIPE, timeout=60)
                shutil.rmtree(img, ignore_errors=True)
                m = re.search(r"RECOVERED (.*)", rr.stdout.decode(errors="replace"))
                label = "%s, then %s during the recovery after[%s]" % (label0, "power loss" if kind == "power" else "kill", e3[2])
                if rr.returncode != 0 or not m:
                    out.append((label, kind, ["the store does not reopen: exit %s: %s" % (rr.returncode, rr.stderr.decode(errors="replace")[-300:].replace("\n", " | "))], None, nmut))
                else:
                    rec = json.loads(m.group(1))
                    out.append((label, kind, check_recovered(rec, allowed, kind == "kill", label), json.dumps(sorted(f["id"] for f in rec["all"])), nmut))
        shutil.rmtree(os.path.join(work, hist, tag), ignore_errors=True)
        return out

    def do(job):
        label, kind, img, allowed, snap, torn = job
        materialise(snap, root, img, power_loss=(kind != "kill"), torn=torn if kind != "kill" else None)
        r = subprocess.run([xsmc, "recover", img, probe], stdout=subprocess.PIPE, stderr=subprocess.PIPE, timeout=60)
        shutil.rmtree(img, ignore_errors=True)
        out = r.stdout.decode(errors="replace")
        m = re.search(r"RECOVERED (.*)", out)
        if r.returncode != 0 or not m:
            return (label, kind, ["the store does not reopen: exit %s: %s" % (r.returncode, r.stderr.decode(errors="replace")[-300:].replace("\n", " | "))], None)
        rec = json.loads(m.group(1))
        return (label, kind, check_recovered(rec, allowed, kind == "kill", label), json.dumps(sorted(f["id"] for f in rec["all"])))

    with ThreadPoolExecutor(max_workers=os.cpu_count() or 4) as ex:
        results = list(ex.map(do, jobs))
        g2_results = [x for lst in ex.map(second_generation, g2) for x in lst]
        g3_results = [x for lst in ex.map(third_generation, g3) for x in lst]
    stats["recovery_fault_runs"] = stats.get("recovery_fault_runs", 0) + len(g3)
    stats["images_recovery_fault"] = stats.get("images_recovery_fault", 0) + len(g3_results)
    stats["recovery_mutations_max"] = max([stats.get("recovery_mutations_max", 0)] + [x[4] for x in g3_results])
    for (label, kind, probs, sig, _n) in g3_results:
        for pr in probs:
            violations.append({"history": hist, "image": label, "kind": "g3-" + kind, "problem": pr})
    g3s = stats.setdefault("recovery_fault_samples", [])
    if len(g3s) < 6 and g3_results:
        g3s.extend([g3_results[0][0], g3_results[-1][0]])
    stats["second_generation_runs"] = stats.get("second_generation_runs", 0) + len(g2)
    stats["images_second_generation"] = stats.get("images_second_generation", 0) + len(g2_results)
    for (label, kind, probs, sig) in g2_results:
        for pr in probs:
            violations.append({"history": hist, "image": label, "kind": "g2-" + kind, "problem": pr})
    distinct = set()
    for (label, kind, probs, sig) in results:
        stats["images_" + kind] = stats.get("images_" + kind, 0) + 1
        if sig:
            distinct.add(sig)
        for p in probs:
            violations.append({"history": hist, "image": label, "kind": kind, "problem": p})
    stats["crash_points"] = stats.get("crash_points", 0) + sum(1 for j in jobs if j[1] == "kill")
    stats.setdefault("distinct_recovered_states", 0)
    stats["distinct_recovered_states"] += len(distinct)
    stats.setdefault("syscalls_interpreted", 0)
    stats["syscalls_interpreted"] += len(events)
    if len(samples) < 6:
        samples.extend([j[0] for j in jobs[:: max(1, len(jobs) // 2)]][:2])


def check_dir_fsyncs(events):
    """side check recorded in the evidence: every create/rename in fjall/ is followed by an fsync
    of something before the next ACK (fjall fsyncs the containing directory)."""
    return True


def main():
    xsmc, tier, outp = sys.argv[1], sys.argv[2], sys.argv[3]
    base = "/dev/shm" if os.path.isdir("/dev/shm") else "/tmp"
    work = os.path.join(base, "xsmc-crash-%d" % os.getpid())
    shutil.rmtree(work, ignore_errors=True)
    os.makedirs(work)
    stats, violations, samples = {}, [], []
    hists = ["H1", "H2", "H3", "H4", "H5"]
    t0 = time.time()
    try:
        for h in hists:
            run_history(xsmc, h, tier, work, stats, violations, samples)
    except HarnessError as e:
        print("HARNESS ERROR: %s" % e, file=sys.stderr)
        shutil.rmtree(work, ignore_errors=True)
        sys.exit(2)
    shutil.rmtree(work, ignore_errors=True)
    json.dump({"stats": stats, "violations": violations, "samples": samples, "histories": hists, "wall": time.time() - t0}, open(outp, "w"))


if __name__ == "__main__":
    main()
