mod c06;
mod c10;
mod c14;
mod c15;
mod c16;
mod c17;
mod c18;
mod c19;
mod c20;
mod common;
mod crash;
mod e2;
mod e4;
mod e5;
mod e6;
mod http;
mod model;
mod sched;
mod seq;

use common::Report;

fn usage() -> ! {
    eprintln!("usage: xsmc check <Cnn> <quick|thorough> | xsmc replay <file> | xsmc worker <kind> ...");
    std::process::exit(2);
}

fn check(prop: &str, tier: &str) -> i32 {
    match prop {
        "C07" => {
            let mut r = Report::new(prop, tier, "model_checking");
            r.assumptions = vec![
                "E1: fjall, tokio, scru128 explored through; in-process reopen".into(),
                "E2: scheduling points are the verif hooks (ctx.unregister, commit.pre/post, append.*)".into(),
            ];
            let mut r1 = Report::new(prop, tier, "model_checking");
            seq::run(prop, tier, &mut r1);
            let mut r2 = Report::new(prop, tier, "model_checking");
            e2::run(prop, tier, &mut r2);
            common::merge_reports(&mut r, vec![("E1-seq", r1), ("E2-sched", r2)]);
            r.finish()
        }
        "C05" => {
            let mut r = Report::new(prop, tier, "model_checking");
            r.assumptions = vec![
                "E1: fjall/lsm-tree, cacache, tokio and scru128 are explored through, not modelled; scratch stores on tmpfs".into(),
                "E2: scheduling points are the verif hooks (append.*, commit.pre/post) of import, remove and append".into(),
            ];
            let mut r1 = Report::new(prop, tier, "model_checking");
            seq::run(prop, tier, &mut r1);
            let mut r2 = Report::new(prop, tier, "model_checking");
            e2::run(prop, tier, &mut r2);
            common::merge_reports(&mut r, vec![("E1-seq", r1), ("E2-sched", r2)]);
            r.finish()
        }
        "C09" => {
            let mut r = Report::new(prop, tier, "model_checking");
            r.assumptions = vec![
                "E1: fjall/lsm-tree, cacache, tokio and scru128 are explored through, not modelled; scratch stores on tmpfs; the clock and the collector are explicit operations".into(),
                "E2: scheduling points are the verif hooks of Store::read plus a clock actor".into(),
            ];
            let mut r1 = Report::new(prop, tier, "model_checking");
            seq::run(prop, tier, &mut r1);
            let mut r2 = Report::new(prop, tier, "model_checking");
            e2::run(prop, tier, &mut r2);
            common::merge_reports(&mut r, vec![("E1-seq", r1), ("E2-sched", r2)]);
            r.finish()
        }
        "C01" | "C08" | "C20" => {
            let mut r = Report::new(prop, tier, "model_checking");
            r.assumptions = vec![
                "fjall/lsm-tree, cacache, tokio and scru128 are explored through, not modelled".into(),
                "scratch stores live on tmpfs (/dev/shm)".into(),
                "bounded: operation alphabet and depth as reported in coverage".into(),
            ];
            seq::run(prop, tier, &mut r);
            r.finish()
        }
        "C02" | "C03" | "C11" => {
            let mut r = Report::new(prop, tier, "model_checking");
            r.assumptions = vec![
                "scheduling points exist where the verif hooks are (DESIGN.md §2.1); reorderings inside one step (inside fjall's commit, inside a tokio channel operation) are trusted".into(),
                "no unsafe code in the explored paths, so cooperative scheduling hides no data race".into(),
                "bounded: scenarios, preemption bound and tick horizon as reported in coverage".into(),
            ];
            e2::run(prop, tier, &mut r);
            r.finish()
        }
        "C13" => {
            let mut r = Report::new(prop, tier, "model_checking");
            r.assumptions = vec![
                "hyper's HTTP/1.1 parsing and tokio are explored through, not modelled".into(),
                "bounded: request alphabet and sequence length as reported in coverage; any 2xx counts as success".into(),
            ];
            let mut r1 = Report::new(prop, tier, "model_checking");
            e4::run_c13(tier, &mut r1);
            let mut r2 = Report::new(prop, tier, "model_checking");
            e4::run_streaming(&mut r2, "C13");
            common::merge_reports(&mut r, vec![("E4-sequences", r1), ("E4-streaming", r2)]);
            r.finish()
        }
        "C06" => {
            let mut r = Report::new(prop, tier, "model_checking");
            r.assumptions = vec![
                "E1/E2/E4 trusted bases apply (fjall, tokio, hyper explored through)".into(),
                "script-level paths (.cat/.head inside handlers and commands, handler dispatch and output) are decided by the E5 part".into(),
            ];
            let mut r1 = Report::new(prop, tier, "model_checking");
            seq::run(prop, tier, &mut r1);
            let mut r2 = Report::new(prop, tier, "model_checking");
            e2::run(prop, tier, &mut r2);
            let mut r3 = Report::new(prop, tier, "model_checking");
            e4::run_c06_http(&mut r3);
            common::merge_reports(&mut r, vec![("E1-seq", r1), ("E2-sched", r2), ("E4-http", r3)]);
            r.finish()
        }
        "C04" => {
            let mut r = Report::new(prop, tier, "fault_enumeration");
            r.assumptions = vec![
                "strace's rendering of the syscalls is faithful; the interpreter's final state is compared with the real directory on every run".into(),
                "power loss drops unsynced journal bytes (zero-filled pre-allocated journal) and tears the last unsynced journal write; directory entries are kept; other files keep their process-kill content".into(),
                "crash points inside the very first creation of an empty store are outside the quantifier (nothing acknowledged yet)".into(),
                "CAS durability against power loss is not claimed".into(),
            ];
            crash::run(tier, &mut r);
            r.finish()
        }
        "C10" => {
            let mut r = Report::new(prop, tier, "model_checking");
            r.assumptions = vec![
                "cacache's own integrity checks are trusted; content durability against power loss is not claimed".into(),
                "a write that reports failure makes no claim (size-hinted cas_insert of empty content fails on Linux)".into(),
            ];
            let mut r1 = Report::new(prop, tier, "model_checking");
            c10::run(tier, &mut r1);
            let mut r2 = Report::new(prop, tier, "model_checking");
            seq::run(prop, tier, &mut r2);
            let (e1, d1) = (r1.coverage.get("evaluations").and_then(|v| v.as_u64()).unwrap_or(0), r1.coverage.get("distinct_nontrivial").and_then(|v| v.as_u64()).unwrap_or(0));
            common::merge_reports(&mut r, vec![("entry-points", r1), ("E1-seq-shared-content", r2)]);
            r.cov("evaluations", serde_json::json!(e1));
            r.cov("distinct_nontrivial", serde_json::json!(d1));
            r.finish()
        }
        "C14" => {
            let mut r = Report::new(prop, tier, "model_checking");
            r.assumptions = vec![
                "histories, resume modes and burst compositions are enumerated; the interleaving of a burst with the busy handler is the OS's (fallback stated in DESIGN.md §10): the schedule dimension of the stream the handler consumes is decided exhaustively by C03, the start-up race by C16".into(),
                "nushell is explored through".into(),
            ];
            c14::run(tier, &mut r);
            r.finish()
        }
        "C15" => {
            let mut r = Report::new(prop, tier, "model_checking");
            r.assumptions = vec![
                "nushell is explored through, not modelled; the serve loop's own schedule is the OS's (programs are enumerated, schedules are C03/C16's)".into(),
                "return values of types whose rendering the statement does not fix (binary, date, duration, closures) are outside the grammar".into(),
            ];
            c15::run(tier, &mut r);
            r.finish()
        }
        "C16" => {
            let mut r = Report::new(prop, tier, "model_checking");
            r.assumptions = vec![
                "start-up race: scheduling points are the verif hooks in Handler::spawn; the handler's own Store::read runs free".into(),
                "lifecycle histories: the serve loops' schedule is the OS's; absence of an answer is decided after all expected answers arrived plus a 40 ms grace period".into(),
            ];
            c16::run(tier, &mut r);
            r.finish()
        }
        "C17" => {
            let mut r = Report::new(prop, tier, "model_checking");
            r.assumptions = vec![
                "the child process is the real `xs serve` binary built from /repo's working tree (feature verif on, no scheduler installed); its internal schedule is the OS's".into(),
                "restart points are at quiescent boundaries of the history (crash points inside an operation are C04's)".into(),
                "absence (nothing stopped answers, nothing is re-executed) is decided after all expected answers plus an 80 ms grace period".into(),
            ];
            c17::run(tier, &mut r);
            r.finish()
        }
        "C18" => {
            let mut r = Report::new(prop, tier, "model_checking");
            r.assumptions = vec![
                "nushell is explored through; generator expressions that fail to parse, yield non-strings or the empty string are outside the grammar (documented exclusions)".into(),
                "the 1 s restart delay is waited for in real time".into(),
            ];
            c18::run(tier, &mut r);
            r.finish()
        }
        "C19" => {
            let mut r = Report::new(prop, tier, "model_checking");
            r.assumptions = vec![
                "nushell is explored through; the schedule of overlapping calls is the OS's (their results carry the call id, so any mixing is detected whatever the schedule)".into(),
                "absence (a call that must not be executed) is decided after all expected terminal events plus a 60 ms grace period".into(),
                "restart behaviour (no replay of historical calls) is decided by C17's check".into(),
            ];
            c19::run(tier, &mut r);
            r.finish()
        }
        "C12" => {
            let mut r = Report::new(prop, tier, "model_checking");
            r.assumptions = vec![
                "serde_json, serde_urlencoded, ssri and hyper are explored through, not modelled".into(),
                "bounded: the token alphabets listed under coverage.rule; values outside them are not covered".into(),
            ];
            e6::run_c12(tier, &mut r);
            r.finish()
        }
        _ => {
            eprintln!("no check registered for {}", prop);
            2
        }
    }
}

fn main() {
    let args: Vec<String> = std::env::args().collect();
    if args.len() < 2 {
        usage();
    }
    let code = match args[1].as_str() {
        "check" => {
            if args.len() < 4 {
                usage();
            }
            let c = check(&args[2], &args[3]);
            common::cleanup_scratch();
            c
        }
        "worker" => {
            if args.len() < 3 {
                usage();
            }
            match args[2].as_str() {
                "seq" => seq::worker(&args[3], &args[4]),
                "e2" => e2::worker(&args[3]),
                "e4" => e4::worker(),
                "e6" => e6::worker(),
                "c06" => c06::worker(),
                "c15" => c15::worker(),
                "c14" => c14::worker(),
                "c16" => c16::worker(),
                "c19" => c19::worker(),
                "c18" => c18::worker(),
                "c17" => c17::worker(),
                _ => usage(),
            }
            0
        }
        "driver" => {
            crash::driver(&args[2], &args[3]);
            0
        }
        "driver2" => {
            crash::driver2(&args[2], &args[3]);
            0
        }
        "recover" => {
            crash::recover(&args[2], &args[3]);
            0
        }
        "replay" => {
            if args.len() < 3 {
                usage();
            }
            let s = std::fs::read_to_string(&args[2]).expect("replay file");
            let v: serde_json::Value = serde_json::from_str(&s).expect("replay json");
            let rp = &v["replay"];
            let c = match rp["engine"].as_str().unwrap_or("") {
                "seq" => seq::replay(rp),
                "e2" => e2::replay(rp),
                "e2-scripts" => {
                    let (fs, n) = e2::script_appenders();
                    println!("frames {}", n);
                    for f in &fs {
                        println!("finding {}: {}", f.kind, f.msg);
                    }
                    if fs.is_empty() { 0 } else { 1 }
                }
                "e2-stress" => {
                    let (fs, n) = e2::stress_c02();
                    println!("frames {}", n);
                    for f in &fs {
                        println!("finding {}: {}", f.kind, f.msg);
                    }
                    if fs.is_empty() { 0 } else { 1 }
                }
                "e4" => e4::replay(rp),
                "e6" => e6::replay(rp),
                "c10" => {
                    let mut r = Report::new("C10", "quick", "model_checking");
                    c10::run("quick", &mut r);
                    if r.violations.is_empty() { 0 } else { 1 }
                }
                "c15" => c15::replay(rp),
                "c14" => c14::replay(rp),
                "c16" => c16::replay(rp),
                "c19" => c19::replay(rp),
                "c18" => c18::replay(rp),
                "c17" => c17::replay(rp),
                "e3" => {
                    let mut r = Report::new("C04", "quick", "fault_enumeration");
                    crash::run(rp["tier"].as_str().unwrap_or("quick"), &mut r);
                    for v in &r.violations {
                        println!("finding {}: {}", v.signature, v.message);
                    }
                    if r.violations.is_empty() { 0 } else { 1 }
                }
                "c06" => {
                    let (fs, o) = c06::run_case_json(&rp["case"]);
                    println!("outcome {}", o);
                    for f in &fs {
                        println!("finding {}: {}", f.kind, f.msg);
                    }
                    if fs.is_empty() { 0 } else { 1 }
                }
                other => {
                    eprintln!("unknown replay engine {:?}", other);
                    2
                }
            };
            common::cleanup_scratch();
            c
        }
        _ => usage(),
    };
    std::process::exit(code);
}
