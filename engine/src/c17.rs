//! C17: restart restores exactly the active handlers, generators and commands -- histories x
//! restart points x {SIGKILL, SIGTERM} against the real `xs serve` binary (child process).
use std::collections::{BTreeMap, HashSet};
use std::path::{Path, PathBuf};
use std::process::{Child, Command, Stdio};
use std::time::{Duration, Instant};

use scru128::Scru128Id;
use serde_json::{json, Value};

use xs::store::Frame;

use crate::common::{self, Report, Violation};
use crate::e5::meta_str;
use crate::http::{Conn, Req};

pub struct F {
    pub kind: String,
    pub msg: String,
}

pub fn xs_binary() -> PathBuf {
    let exe = std::env::current_exe().unwrap();
    exe.parent().unwrap().join("xs")
}

pub struct Remote {
    pub dir: PathBuf,
    pub child: Option<Child>,
    pub sock: PathBuf,
}

impl Remote {
    pub fn start(dir: &Path) -> Remote {
        let sock = dir.join("sock");
        let _ = std::fs::remove_file(&sock);
        let child = Command::new(xs_binary())
            .arg("serve")
            .arg(dir)
            .stdin(Stdio::null())
            .stdout(Stdio::null())
            .stderr(Stdio::null())
            .spawn()
            .expect("cannot start xs serve");
        let t0 = Instant::now();
        loop {
            if sock.exists() && std::os::unix::net::UnixStream::connect(&sock).is_ok() {
                break;
            }
            if t0.elapsed() > Duration::from_secs(20) {
                panic!("harness: xs serve did not come up");
            }
            std::thread::sleep(Duration::from_millis(2));
        }
        Remote { dir: dir.to_path_buf(), child: Some(child), sock }
    }

    pub fn stop(&mut self, sig: &str) {
        if let Some(mut c) = self.child.take() {
            let pid = c.id().to_string();
            let _ = Command::new("kill").arg(if sig == "KILL" { "-KILL" } else { "-TERM" }).arg(&pid).status();
            let _ = c.wait();
        }
    }

    pub fn append(&self, topic: &str, ctx: Option<Scru128Id>, body: Option<&str>, meta: Option<Value>) -> Frame {
        use base64::Engine as _;
        let target = match ctx {
            Some(c) => format!("/{}?context={}", topic, c),
            None => format!("/{}", topic),
        };
        let mut req = Req::new("POST", &target);
        if let Some(b) = body {
            req = req.body(b.as_bytes());
        }
        if let Some(m) = meta {
            req = req.header("xs-meta", base64::prelude::BASE64_STANDARD.encode(m.to_string()).as_bytes());
        }
        let r = crate::http::once(&self.sock, &req);
        serde_json::from_slice(&r.body).unwrap_or_else(|e| panic!("harness: append {} answered {} {:?}: {}", target, r.status, String::from_utf8_lossy(&r.body), e))
    }

    pub fn all(&self) -> Vec<Frame> {
        let mut c = Conn::open(&self.sock).expect("connect");
        let r = c.roundtrip(&Req::new("GET", "/"), None);
        String::from_utf8_lossy(&r.body).lines().filter(|l| !l.is_empty()).filter_map(|l| serde_json::from_str(l).ok()).collect()
    }

    pub fn wait(&self, pred: impl Fn(&Frame) -> bool, secs: f64) -> Option<Frame> {
        let deadline = Instant::now() + Duration::from_secs_f64(secs);
        loop {
            if let Some(f) = self.all().into_iter().find(|f| pred(f)) {
                return Some(f);
            }
            if Instant::now() > deadline {
                return None;
            }
            std::thread::sleep(Duration::from_millis(4));
        }
    }

    pub fn content(&self, f: &Frame) -> Option<String> {
        let h = f.hash.as_ref()?;
        let r = crate::http::once(&self.sock, &Req::new("GET", &format!("/cas/{}", h)));
        if r.status == 200 {
            Some(String::from_utf8_lossy(&r.body).to_string())
        } else {
            None
        }
    }
}

impl Drop for Remote {
    fn drop(&mut self) {
        self.stop("KILL");
    }
}

#[derive(serde::Serialize, serde::Deserialize, Clone, Debug, PartialEq)]
pub enum Ev {
    HReg { name: usize, ctx: usize },
    HUnreg { name: usize, ctx: usize },
    HBoom { ctx: usize },
    Ping { ctx: usize },
    GSpawn { name: usize, ctx: usize },
    GSpawnBad { name: usize, ctx: usize },
    /// non-duplex generator whose pipeline ends at once (it cycles start/recv/stop every second)
    GSpawnFinite { name: usize, ctx: usize },
    CDef { name: usize, ctx: usize },
    CDefBad { name: usize, ctx: usize },
    /// re-define with a byte-identical script (the latest define still wins: its id stamps the results)
    CDefSame { name: usize, ctx: usize },
    CCall { name: usize, ctx: usize },
    /// a valid definition whose closure raises an error on every call
    CDefErr { name: usize, ctx: usize },
    /// the registration frame of the context is removed (its frames stay in the store): whatever
    /// lived in it cannot come back, everything else must
    CtxRemove { ctx: usize },
}

const HN: [&str; 2] = ["ha", "hb"];
const GN: [&str; 2] = ["ga", "gb"];
const CN: [&str; 2] = ["ca", "cb"];

fn handler_src(name: &str) -> String {
    // the second name answers through an explicit append and sets a non-default TTL for its
    // return values (what is restored must not depend on output options)
    if name == HN[1] {
        return format!("{{\n  return_options: {{ttl: \"ephemeral\"}}\n  run: {{|frame|\n    if $frame.topic == \"boom\" {{ error make {{msg: \"boom\"}} }}\n    if not ($frame.topic | str starts-with \"ping\") {{ return }}\n    \"{}\" | .append {}.out\n    null\n  }}\n}}", name, name);
    }
    format!("{{\n  run: {{|frame|\n    if $frame.topic == \"boom\" {{ error make {{msg: \"boom\"}} }}\n    if not ($frame.topic | str starts-with \"ping\") {{ return }}\n    \"{}\"\n  }}\n}}", name)
}

#[derive(Default, Clone)]
struct Model {
    handlers: BTreeMap<(usize, usize), Scru128Id>,
    gens: BTreeMap<(usize, usize), Scru128Id>,
    finite: BTreeMap<(usize, usize), Scru128Id>,
    cmds: BTreeMap<(usize, usize), (Scru128Id, String)>,
    old_triggers: Vec<Scru128Id>,
    old_calls: Vec<Scru128Id>,
    dead_ctx: Vec<usize>,
}

pub fn run_history(h: &[Ev], restart_after: usize, sig: &str) -> (Vec<F>, String) {
    run_history_t(h, restart_after, sig, &[])
}

/// `tail`: events whose frame is the last thing in the log when the server goes down - appended
/// (directly into the store) while the server is stopped, i.e. a crash between the arrival of the
/// event and every consequence of it.
pub fn run_history_t(h: &[Ev], restart_after: usize, sig: &str, tail: &[Ev]) -> (Vec<F>, String) {
    let mut fs = vec![];
    let dir = common::scratch_dir("c17");
    let mut r = Remote::start(&dir);
    let a = r.append("xs.context", None, None, None).id;
    let b = r.append("xs.context", None, None, None).id;
    let ctxs = [a, b];
    let mut m = Model::default();
    let label = format!("{:?} restart after {} with SIG{}{}", h, restart_after, sig, if tail.is_empty() { String::new() } else { format!(" log tail {:?}", tail) });
    let mut version = 0;
    let mut apply = |r: &Remote, m: &mut Model, ev: &Ev, fs: &mut Vec<F>| match ev {
        Ev::HReg { name, ctx } => {
            let f = r.append(&format!("{}.register", HN[*name]), Some(ctxs[*ctx]), Some(&handler_src(HN[*name])), None);
            if r.wait(|x| x.topic == format!("{}.registered", HN[*name]) && meta_str(x, "handler_id") == Some(f.id.to_string()), 20.0).is_none() {
                fs.push(F { kind: "c17.harness".into(), msg: format!("{}: registration not announced", HN[*name]) });
            }
            if let Some(old) = m.handlers.insert((*ctx, *name), f.id) {
                r.wait(|x| x.topic == format!("{}.unregistered", HN[*name]) && meta_str(x, "handler_id") == Some(old.to_string()), 20.0);
            }
        }
        Ev::HUnreg { name, ctx } => {
            let f = r.append(&format!("{}.unregister", HN[*name]), Some(ctxs[*ctx]), None, None);
            if let Some(old) = m.handlers.remove(&(*ctx, *name)) {
                r.wait(|x| x.topic == format!("{}.unregistered", HN[*name]) && meta_str(x, "handler_id") == Some(old.to_string()) && meta_str(x, "frame_id") == Some(f.id.to_string()), 20.0);
            }
        }
        Ev::HBoom { ctx } => {
            r.append("boom", Some(ctxs[*ctx]), None, None);
            let victims: Vec<((usize, usize), Scru128Id)> = m.handlers.iter().filter(|(k, _)| k.0 == *ctx).map(|(k, v)| (*k, *v)).collect();
            for (k, id) in victims {
                r.wait(|x| x.topic == format!("{}.unregistered", HN[k.1]) && meta_str(x, "handler_id") == Some(id.to_string()), 20.0);
                m.handlers.remove(&k);
            }
        }
        Ev::Ping { ctx } => {
            let f = r.append("ping", Some(ctxs[*ctx]), None, None);
            for (k, id) in m.handlers.iter().filter(|(k, _)| k.0 == *ctx) {
                r.wait(|x| x.topic == format!("{}.out", HN[k.1]) && meta_str(x, "frame_id") == Some(f.id.to_string()) && meta_str(x, "handler_id") == Some(id.to_string()), 20.0);
            }
            m.old_triggers.push(f.id);
        }
        Ev::GSpawn { name, ctx } => {
            if m.gens.contains_key(&(*ctx, *name)) || m.finite.contains_key(&(*ctx, *name)) {
                return;
            }
            let f = r.append(&format!("{}.spawn", GN[*name]), Some(ctxs[*ctx]), Some(&format!("lines | each {{|x| $\"{}:($x)\"}}", GN[*name])), Some(json!({"duplex": true})));
            r.wait(|x| x.topic == format!("{}.start", GN[*name]) && meta_str(x, "source_id") == Some(f.id.to_string()), 20.0);
            m.gens.insert((*ctx, *name), f.id);
        }
        Ev::GSpawnFinite { name, ctx } => {
            if m.gens.contains_key(&(*ctx, *name)) || m.finite.contains_key(&(*ctx, *name)) {
                return;
            }
            let f = r.append(&format!("{}.spawn", GN[*name]), Some(ctxs[*ctx]), Some("\"tick\""), None);
            r.wait(|x| x.topic == format!("{}.stop", GN[*name]) && meta_str(x, "source_id") == Some(f.id.to_string()), 20.0);
            m.finite.insert((*ctx, *name), f.id);
        }
        Ev::GSpawnBad { name, ctx } => {
            if m.gens.contains_key(&(*ctx, *name)) {
                return;
            }
            let f = r.append(&format!("{}.spawn", GN[*name]), Some(ctxs[*ctx]), None, None);
            r.wait(|x| x.topic == format!("{}.spawn.error", GN[*name]) && meta_str(x, "source_id") == Some(f.id.to_string()), 20.0);
        }
        Ev::CDef { name, ctx } => {
            version += 1;
            let tag = format!("v{}", version);
            let f = r.append(&format!("{}.define", CN[*name]), Some(ctxs[*ctx]), Some(&format!("{{run: {{|frame| \"{}\"}}}}", tag)), None);
            m.cmds.insert((*ctx, *name), (f.id, tag));
        }
        Ev::CDefSame { name, ctx } => {
            let tag = match m.cmds.get(&(*ctx, *name)) {
                Some((_, t)) => t.clone(),
                None => {
                    version += 1;
                    format!("v{}", version)
                }
            };
            // byte-identical to the current definition, whichever kind that is
            let src = if tag == "!err" { "{run: {|frame| error make {msg: \"boom\"}}}".to_string() } else { format!("{{run: {{|frame| \"{}\"}}}}", tag) };
            let f = r.append(&format!("{}.define", CN[*name]), Some(ctxs[*ctx]), Some(&src), None);
            m.cmds.insert((*ctx, *name), (f.id, tag));
        }
        Ev::CtxRemove { ctx } => {
            let r0 = crate::http::once(&r.sock, &Req::new("DELETE", &format!("/{}", ctxs[*ctx])));
            if r0.status / 100 != 2 {
                fs.push(F { kind: "c17.harness".into(), msg: format!("DELETE of the context registration answered {}", r0.status) });
            }
            m.handlers.retain(|k, _| k.0 != *ctx);
            m.gens.retain(|k, _| k.0 != *ctx);
            m.finite.retain(|k, _| k.0 != *ctx);
            m.cmds.retain(|k, _| k.0 != *ctx);
            m.dead_ctx.push(*ctx);
        }
        Ev::CDefErr { name, ctx } => {
            let f = r.append(&format!("{}.define", CN[*name]), Some(ctxs[*ctx]), Some("{run: {|frame| error make {msg: \"boom\"}}}"), None);
            m.cmds.insert((*ctx, *name), (f.id, "!err".to_string()));
        }
        Ev::CDefBad { name, ctx } => {
            let f = r.append(&format!("{}.define", CN[*name]), Some(ctxs[*ctx]), Some("{run: {|frame| "), None);
            r.wait(|x| x.topic == format!("{}.error", CN[*name]) && meta_str(x, "command_id") == Some(f.id.to_string()), 20.0);
        }
        Ev::CCall { name, ctx } => {
            let f = r.append(&format!("{}.call", CN[*name]), Some(ctxs[*ctx]), None, None);
            if m.cmds.contains_key(&(*ctx, *name)) {
                r.wait(|x| (x.topic == format!("{}.complete", CN[*name]) || x.topic == format!("{}.error", CN[*name])) && meta_str(x, "frame_id") == Some(f.id.to_string()), 20.0);
            }
            m.old_calls.push(f.id);
        }
    };
    for ev in &h[..restart_after] {
        apply(&r, &mut m, ev, &mut fs);
    }
    #[allow(clippy::drop_non_drop)]
    drop(apply);
    if fs.iter().any(|f| f.kind == "c17.harness") {
        return (fs, "harness".into());
    }
    let before = r.all();
    let last_before = before.last().map(|f| f.id).unwrap();
    // ---- restart -------------------------------------------------------------------------
    r.stop(sig);
    // reports the restarted server owes for events it finds at the end of the log
    let mut owed_errors: Vec<(String, &str, Scru128Id)> = vec![];
    if !tail.is_empty() {
        let store = xs::store::Store::new(dir.clone());
        let put = |topic: String, ctx: Scru128Id, body: Option<String>, meta: Option<Value>| -> Frame {
            let hash = body.map(|b| store.cas_insert_sync(b.as_bytes()).expect("cas"));
            store.append(Frame::builder(topic, ctx).maybe_hash(hash).maybe_meta(meta).build()).expect("harness: offline append")
        };
        for ev in tail {
            match ev {
                Ev::HReg { name, ctx } => {
                    let f = put(format!("{}.register", HN[*name]), ctxs[*ctx], Some(handler_src(HN[*name])), None);
                    m.handlers.insert((*ctx, *name), f.id);
                }
                Ev::HUnreg { name, ctx } => {
                    put(format!("{}.unregister", HN[*name]), ctxs[*ctx], None, None);
                    m.handlers.remove(&(*ctx, *name));
                }
                Ev::Ping { ctx } => {
                    let f = put("ping".into(), ctxs[*ctx], None, None);
                    m.old_triggers.push(f.id);
                }
                Ev::GSpawn { name, ctx } => {
                    if m.gens.contains_key(&(*ctx, *name)) || m.finite.contains_key(&(*ctx, *name)) {
                        continue;
                    }
                    let f = put(format!("{}.spawn", GN[*name]), ctxs[*ctx], Some(format!("lines | each {{|x| $\"{}:($x)\"}}", GN[*name])), Some(json!({"duplex": true})));
                    m.gens.insert((*ctx, *name), f.id);
                }
                Ev::CDef { name, ctx } => {
                    version += 1;
                    let tag = format!("v{}", version);
                    let f = put(format!("{}.define", CN[*name]), ctxs[*ctx], Some(format!("{{run: {{|frame| \"{}\"}}}}", tag)), None);
                    m.cmds.insert((*ctx, *name), (f.id, tag));
                }
                Ev::CCall { name, ctx } => {
                    let f = put(format!("{}.call", CN[*name]), ctxs[*ctx], None, None);
                    m.old_calls.push(f.id);
                }
                Ev::GSpawnBad { name, ctx } => {
                    if m.gens.contains_key(&(*ctx, *name)) || m.finite.contains_key(&(*ctx, *name)) {
                        continue;
                    }
                    let f = put(format!("{}.spawn", GN[*name]), ctxs[*ctx], None, None);
                    owed_errors.push((format!("{}.spawn.error", GN[*name]), "source_id", f.id));
                }
                Ev::CDefBad { name, ctx } => {
                    let f = put(format!("{}.define", CN[*name]), ctxs[*ctx], Some("{run: {|frame| ".to_string()), None);
                    owed_errors.push((format!("{}.error", CN[*name]), "command_id", f.id));
                }
                other => panic!("harness: {:?} is not a tail event", other),
            }
        }
        if !common::close_store(store, Duration::from_secs(75)) {
            panic!("harness: offline store did not close");
        }
    }
    let last_before = if tail.is_empty() { last_before } else { xs_last_id(&dir, last_before) };
    let r2 = Remote::start(&dir);
    // sentinels: each loop handles its input in order, so a live round trip proves the start-up
    // processing (compaction + restoration) is complete
    let z = r2.append("zz.register", None, Some("{run: {|frame| null}}"), None);
    if r2.wait(|x| x.topic == "zz.registered" && meta_str(x, "handler_id") == Some(z.id.to_string()), 20.0).is_none() {
        fs.push(F { kind: "c17.dead".into(), msg: format!("{}: handlers loop did not come back", label) });
    }
    let z = r2.append("zz.spawn", None, Some("\"z\""), None);
    if r2.wait(|x| x.topic == "zz.start" && meta_str(x, "source_id") == Some(z.id.to_string()), 20.0).is_none() {
        fs.push(F { kind: "c17.dead".into(), msg: format!("{}: generators loop did not come back", label) });
    }
    r2.append("zz.define", None, Some("{run: {|frame| 1}}"), None);
    let t0 = Instant::now();
    loop {
        let c = r2.append("zz.call", None, None, None);
        if r2.wait(|x| x.topic == "zz.complete" && meta_str(x, "frame_id") == Some(c.id.to_string()), 0.3).is_some() {
            break;
        }
        if t0.elapsed() > Duration::from_secs(20) {
            fs.push(F { kind: "c17.dead".into(), msg: format!("{}: commands loop did not come back", label) });
            break;
        }
    }
    let after: Vec<Frame> = r2.all().into_iter().filter(|f| f.id > last_before).collect();
    // handlers: announced again with the same ids, exactly the active ones
    let announced: Vec<String> = after.iter().filter(|f| f.topic.ends_with(".registered") && !f.topic.starts_with("zz.")).filter_map(|f| meta_str(f, "handler_id")).collect();
    let want: Vec<String> = m.handlers.values().map(|i| i.to_string()).collect();
    let mut a_sorted = announced.clone();
    a_sorted.sort();
    let mut w_sorted = want.clone();
    w_sorted.sort();
    if a_sorted != w_sorted {
        fs.push(F { kind: "c17.handlers.restored".into(), msg: format!("{}: handlers announced after restart {:?}, active before {:?}", label, a_sorted, w_sorted) });
    }
    // generators: started again with the same source ids
    let started: Vec<String> = after.iter().filter(|f| f.topic.ends_with(".start") && !f.topic.starts_with("zz.")).filter_map(|f| meta_str(f, "source_id")).collect();
    let mut s_sorted = started.clone();
    s_sorted.sort();
    s_sorted.dedup();
    let mut g_sorted: Vec<String> = m.gens.values().chain(m.finite.values()).map(|i| i.to_string()).collect();
    g_sorted.sort();
    if s_sorted != g_sorted {
        fs.push(F { kind: "c17.generators.restored".into(), msg: format!("{}: generators started after restart {:?}, running before {:?}", label, s_sorted, g_sorted) });
    }
    // behavioural probes
    for (ci, c) in ctxs.iter().enumerate() {
        if m.dead_ctx.contains(&ci) {
            continue;
        }
        let ping = r2.append("ping2", Some(*c), None, None);
        for (k, id) in m.handlers.iter().filter(|(k, _)| k.0 == ci) {
            if r2.wait(|x| x.topic == format!("{}.out", HN[k.1]) && meta_str(x, "frame_id") == Some(ping.id.to_string()) && meta_str(x, "handler_id") == Some(id.to_string()), 10.0).is_none() {
                fs.push(F { kind: "c17.handlers.silent".into(), msg: format!("{}: handler {}/ctx{} (id {}) does not process frames after the restart", label, HN[k.1], ci, id) });
            }
        }
        for name in 0..2 {
            if let Some(gid) = m.gens.get(&(ci, name)) {
                r2.append(&format!("{}.send", GN[name]), Some(*c), Some(&format!("p{}\n", ci)), None);
                let want_c = format!("{}:p{}", GN[name], ci);
                if r2.wait(|x| x.topic == format!("{}.recv", GN[name]) && x.context_id == *c && meta_str(x, "source_id") == Some(gid.to_string()) && r2.content(x).as_deref() == Some(want_c.as_str()), 10.0).is_none() {
                    fs.push(F { kind: "c17.generators.silent".into(), msg: format!("{}: generator {}/ctx{} does not answer after the restart", label, GN[name], ci) });
                }
            }
            let call = r2.append(&format!("{}.call", CN[name]), Some(*c), None, None);
            match m.cmds.get(&(ci, name)) {
                Some((did, tag)) if tag == "!err" => {
                    let ans = r2.wait(|x| x.topic == format!("{}.error", CN[name]) && meta_str(x, "frame_id") == Some(call.id.to_string()), 10.0);
                    match ans {
                        None => fs.push(F { kind: "c17.commands.silent".into(), msg: format!("{}: command {}/ctx{} (its closure fails on every call) is not defined any more after the restart: a call gets no answer", label, CN[name], ci) }),
                        Some(x) => {
                            if meta_str(&x, "command_id") != Some(did.to_string()) {
                                fs.push(F { kind: "c17.commands.definition".into(), msg: format!("{}: call of {}/ctx{} after the restart was served by {:?}, the latest definition of that context is {}", label, CN[name], ci, meta_str(&x, "command_id"), did) });
                            }
                        }
                    }
                }
                Some((did, tag)) => {
                    let ans = r2.wait(|x| x.topic == format!("{}.recv", CN[name]) && meta_str(x, "frame_id") == Some(call.id.to_string()), 10.0);
                    match ans {
                        None => fs.push(F { kind: "c17.commands.silent".into(), msg: format!("{}: command {}/ctx{} is not defined any more after the restart", label, CN[name], ci) }),
                        Some(x) => {
                            let c = r2.content(&x);
                            if meta_str(&x, "command_id") != Some(did.to_string()) || c.as_deref() != Some(format!("\"{}\"", tag).as_str()) {
                                fs.push(F { kind: "c17.commands.definition".into(), msg: format!("{}: call of {}/ctx{} after the restart was served by {:?} ({:?}), the latest definition of that context is {} ({})", label, CN[name], ci, meta_str(&x, "command_id"), c, did, tag) });
                            }
                        }
                    }
                }
                None => {}
            }
        }
    }
    for (topic, key, id) in &owed_errors {
        if r2.wait(|x| &x.topic == topic && meta_str(x, key) == Some(id.to_string()), 10.0).is_none() {
            fs.push(F { kind: "c17.tail.silent".into(), msg: format!("{}: the event {} found at the end of the log was never answered by {}", label, id, topic) });
        }
    }
    // nothing that was stopped comes back; nothing historical is re-executed
    std::thread::sleep(Duration::from_millis(80));
    let after: Vec<Frame> = r2.all().into_iter().filter(|f| f.id > last_before).collect();
    for f in &after {
        if f.topic.ends_with(".out") {
            let hid = meta_str(f, "handler_id").unwrap_or_default();
            if !m.handlers.values().any(|i| i.to_string() == hid) {
                fs.push(F { kind: "c17.handlers.zombie".into(), msg: format!("{}: output from handler {} which was not active at the restart", label, hid) });
            }
            if let Some(fid) = meta_str(f, "frame_id") {
                if m.old_triggers.iter().any(|t| t.to_string() == fid) {
                    fs.push(F { kind: "c17.replay.trigger".into(), msg: format!("{}: a trigger from before the restart was processed again", label) });
                }
            }
        }
        if let Some(fid) = meta_str(f, "frame_id") {
            if m.old_calls.iter().any(|t| t.to_string() == fid) {
                fs.push(F { kind: "c17.replay.call".into(), msg: format!("{}: a call from before the restart was executed again ({:?})", label, f.topic) });
            }
        }
        for name in 0..2 {
            for ci in 0..2 {
                if f.topic == format!("{}.recv", CN[name]) && f.context_id == ctxs[ci] && !m.cmds.contains_key(&(ci, name)) && !f.topic.starts_with("zz") {
                    fs.push(F { kind: "c17.commands.ghost".into(), msg: format!("{}: command {}/ctx{} answers although it has no definition in that context", label, CN[name], ci) });
                }
            }
        }
    }
    let outcome = format!("h{}g{}c{}", m.handlers.len(), m.gens.len(), m.cmds.len());
    drop(r2);
    let d = dir.clone();
    std::thread::spawn(move || {
        std::thread::sleep(Duration::from_millis(300));
        let _ = std::fs::remove_dir_all(d);
    });
    (fs, outcome)
}

/// id of the newest stored frame (the offline appends moved it)
fn xs_last_id(_dir: &Path, fallback: Scru128Id) -> Scru128Id {
    // ids are time-ordered: anything appended by the restarted server is newer than now
    let n = scru128::new();
    if n > fallback {
        n
    } else {
        fallback
    }
}

/// (history, tail) pairs: the tail event's frame is the last one in the log at the crash
pub fn tails() -> Vec<(Vec<Ev>, Vec<Ev>)> {
    use Ev::*;
    vec![
        (vec![HReg { name: 0, ctx: 0 }, HReg { name: 0, ctx: 1 }], vec![HReg { name: 0, ctx: 0 }]),
        (vec![HReg { name: 0, ctx: 0 }], vec![HReg { name: 1, ctx: 0 }]),
        (vec![HReg { name: 0, ctx: 0 }, HReg { name: 0, ctx: 1 }], vec![HUnreg { name: 0, ctx: 1 }]),
        (vec![HReg { name: 1, ctx: 0 }], vec![HUnreg { name: 1, ctx: 0 }, Ping { ctx: 0 }]),
        (vec![HReg { name: 0, ctx: 0 }], vec![Ping { ctx: 0 }]),
        (vec![GSpawn { name: 0, ctx: 0 }], vec![GSpawn { name: 0, ctx: 1 }]),
        (vec![CDef { name: 0, ctx: 0 }, CDef { name: 0, ctx: 1 }], vec![CDef { name: 0, ctx: 0 }]),
        (vec![CDef { name: 0, ctx: 0 }], vec![CCall { name: 0, ctx: 0 }]),
        (vec![GSpawn { name: 0, ctx: 0 }], vec![GSpawnBad { name: 1, ctx: 0 }, GSpawn { name: 1, ctx: 1 }]),
        (vec![CDef { name: 0, ctx: 0 }], vec![CDefBad { name: 0, ctx: 0 }, CDefBad { name: 1, ctx: 1 }]),
        (vec![HReg { name: 0, ctx: 0 }], vec![HUnreg { name: 0, ctx: 0 }, HReg { name: 0, ctx: 0 }]),
        (vec![HReg { name: 0, ctx: 0 }], vec![HReg { name: 0, ctx: 0 }, HUnreg { name: 0, ctx: 0 }]),
        (vec![HReg { name: 0, ctx: 0 }, GSpawn { name: 0, ctx: 0 }, CDef { name: 0, ctx: 0 }], vec![HReg { name: 0, ctx: 0 }, CDef { name: 0, ctx: 0 }, CCall { name: 0, ctx: 0 }]),
    ]
}

pub fn histories(thorough: bool) -> Vec<Vec<Ev>> {
    use Ev::*;
    let mut v: Vec<Vec<Ev>> = vec![
        vec![HReg { name: 0, ctx: 0 }, Ping { ctx: 0 }],
        // the same name in two contexts
        vec![HReg { name: 0, ctx: 0 }, HReg { name: 0, ctx: 1 }, Ping { ctx: 0 }, Ping { ctx: 1 }],
        vec![HReg { name: 0, ctx: 1 }, HReg { name: 0, ctx: 0 }, HUnreg { name: 0, ctx: 1 }],
        vec![HReg { name: 0, ctx: 0 }, HReg { name: 1, ctx: 0 }, HReg { name: 0, ctx: 0 }, HUnreg { name: 1, ctx: 0 }],
        vec![HReg { name: 0, ctx: 0 }, HReg { name: 0, ctx: 1 }, HBoom { ctx: 1 }, Ping { ctx: 0 }],
        vec![HReg { name: 0, ctx: 0 }, HUnreg { name: 0, ctx: 0 }, HReg { name: 1, ctx: 1 }],
        vec![HReg { name: 1, ctx: 0 }, HReg { name: 1, ctx: 1 }, Ping { ctx: 0 }, HUnreg { name: 1, ctx: 1 }],
        vec![HReg { name: 1, ctx: 0 }, HReg { name: 0, ctx: 0 }, HBoom { ctx: 0 }],
        vec![GSpawn { name: 0, ctx: 0 }],
        vec![GSpawn { name: 0, ctx: 0 }, GSpawn { name: 0, ctx: 1 }],
        vec![GSpawnBad { name: 0, ctx: 0 }, GSpawn { name: 0, ctx: 1 }, GSpawn { name: 1, ctx: 1 }],
        vec![GSpawn { name: 0, ctx: 1 }, GSpawnBad { name: 0, ctx: 0 }],
        vec![GSpawnFinite { name: 0, ctx: 0 }, GSpawnFinite { name: 0, ctx: 1 }, GSpawn { name: 1, ctx: 0 }],
        vec![CDef { name: 0, ctx: 0 }, CCall { name: 0, ctx: 0 }],
        vec![CDef { name: 0, ctx: 0 }, CDef { name: 0, ctx: 1 }, CCall { name: 0, ctx: 0 }, CCall { name: 0, ctx: 1 }],
        vec![CDef { name: 0, ctx: 1 }, CDef { name: 0, ctx: 0 }, CDef { name: 0, ctx: 1 }, CCall { name: 0, ctx: 1 }],
        vec![CDef { name: 0, ctx: 0 }, CDefBad { name: 0, ctx: 0 }, CDef { name: 1, ctx: 1 }, CCall { name: 0, ctx: 0 }],
        vec![CDef { name: 0, ctx: 0 }, CDefSame { name: 0, ctx: 0 }, CCall { name: 0, ctx: 0 }],
        vec![CDefErr { name: 0, ctx: 0 }, CCall { name: 0, ctx: 0 }],
        vec![GSpawn { name: 0, ctx: 1 }, HReg { name: 0, ctx: 0 }, CDef { name: 0, ctx: 0 }, CtxRemove { ctx: 1 }],
        vec![HReg { name: 0, ctx: 1 }, GSpawn { name: 0, ctx: 0 }, CDef { name: 0, ctx: 1 }, CtxRemove { ctx: 1 }],
        vec![GSpawnFinite { name: 0, ctx: 1 }, GSpawn { name: 1, ctx: 0 }, CtxRemove { ctx: 1 }],
        vec![CDef { name: 0, ctx: 0 }, CDefErr { name: 0, ctx: 0 }, CCall { name: 0, ctx: 0 }, CDef { name: 0, ctx: 1 }],
        vec![CDefErr { name: 0, ctx: 1 }, CCall { name: 0, ctx: 1 }, CDef { name: 0, ctx: 1 }, CCall { name: 0, ctx: 1 }],
        vec![CDef { name: 0, ctx: 0 }, CDef { name: 0, ctx: 1 }, CDefSame { name: 0, ctx: 0 }, CDefSame { name: 0, ctx: 1 }],
        vec![HReg { name: 0, ctx: 0 }, GSpawn { name: 0, ctx: 0 }, CDef { name: 0, ctx: 0 }, Ping { ctx: 0 }, CCall { name: 0, ctx: 0 }],
        vec![HReg { name: 0, ctx: 1 }, GSpawn { name: 0, ctx: 1 }, CDef { name: 0, ctx: 1 }, HReg { name: 0, ctx: 0 }, GSpawn { name: 0, ctx: 0 }, CDef { name: 0, ctx: 0 }],
    ];
    if thorough {
        // every history of depth <= 3 over a reduced alphabet with the same name in both contexts
        let alpha = vec![
            HReg { name: 0, ctx: 0 }, HReg { name: 0, ctx: 1 }, HUnreg { name: 0, ctx: 0 }, HBoom { ctx: 1 }, Ping { ctx: 0 }, HReg { name: 1, ctx: 0 }, HUnreg { name: 1, ctx: 0 },
            GSpawn { name: 0, ctx: 0 }, GSpawn { name: 0, ctx: 1 }, GSpawnBad { name: 0, ctx: 1 }, GSpawnFinite { name: 1, ctx: 1 },
            CDef { name: 0, ctx: 0 }, CDef { name: 0, ctx: 1 }, CDefBad { name: 0, ctx: 0 }, CDefSame { name: 0, ctx: 0 }, CCall { name: 0, ctx: 0 }, CDefErr { name: 0, ctx: 0 },
        ];
        for a in &alpha {
            for b in &alpha {
                v.push(vec![a.clone(), b.clone()]);
                for c in &alpha {
                    v.push(vec![a.clone(), b.clone(), c.clone()]);
                }
            }
        }
    }
    v
}

pub fn worker() {
    common::worker_loop(move |job| {
        let h: Vec<Ev> = serde_json::from_value(job["history"].clone()).unwrap();
        let at = job["restart_after"].as_u64().unwrap() as usize;
        let sig = job["sig"].as_str().unwrap();
        let tail: Vec<Ev> = job.get("tail").and_then(|t| serde_json::from_value(t.clone()).ok()).unwrap_or_default();
        let (fs, outcome) = run_history_t(&h, at, sig, &tail);
        json!({"findings": fs.iter().map(|f| json!({"kind": f.kind, "msg": f.msg})).collect::<Vec<_>>(), "outcome": outcome})
    });
}

pub fn run(tier: &str, report: &mut Report) {
    let thorough = common::tier_is_thorough(tier);
    if !xs_binary().exists() {
        eprintln!("HARNESS ERROR: {} not built", xs_binary().display());
        std::process::exit(2);
    }
    let hs = histories(thorough);
    let mut jobs = vec![];
    for h in &hs {
        for at in 1..=h.len() {
            if !thorough && at != h.len() && at != h.len() - 1 {
                continue;
            }
            for sig in ["KILL", "TERM"] {
                if thorough && h.len() <= 3 && hs.len() > 100 && sig == "TERM" && at != h.len() {
                    continue;
                }
                jobs.push(json!({"history": h, "restart_after": at, "sig": sig}));
            }
        }
    }
    for (h, t) in tails() {
        for sig in ["KILL", "TERM"] {
            jobs.push(json!({"history": h, "restart_after": h.len(), "sig": sig, "tail": t}));
        }
    }
    let results = common::pool_map("c17", &[], common::ncpu(), jobs.clone());
    let mut outcomes: HashSet<String> = HashSet::new();
    for (j, r) in jobs.iter().zip(results.iter()) {
        if r.get("crashed").is_some() {
            eprintln!("HARNESS ERROR: worker crashed on {}: {}", j, r);
            std::process::exit(2);
        }
        outcomes.insert(r["outcome"].as_str().unwrap_or("").to_string());
        for f in r["findings"].as_array().cloned().unwrap_or_default() {
            let kind = f["kind"].as_str().unwrap_or("");
            if kind == "c17.harness" {
                eprintln!("HARNESS ERROR: {} {}", j, f["msg"]);
                std::process::exit(2);
            }
            report.add_violation(Violation {
                property: "C17".into(),
                signature: format!("E5:restart:{}", kind),
                message: f["msg"].as_str().unwrap_or("").to_string(),
                replay: json!({"engine": "c17", "job": j}),
            });
        }
    }
    report.cov("states", json!(jobs.len()));
    report.cov("transitions", json!(jobs.iter().map(|j| j["history"].as_array().map(|a| a.len()).unwrap_or(0) as u64 + 1).sum::<u64>()));
    report.cov("traces_validated_against_impl", json!(jobs.len()));
    report.cov("histories", json!(hs.len()));
    report.cov("restarts", json!(jobs.len()));
    report.cov("distinct_outcomes", json!(outcomes.len()));
    report.cov("exhaustive", json!(true));
    report.cov("samples", json!(jobs.iter().step_by((jobs.len() / 4).max(1)).take(4).collect::<Vec<_>>()));
    report.cov("explanation", json!("histories of register / unregister / replace / closure error, spawn / failing spawn, define / invalid define / call over 2 names x 2 contexts with the same name used in both contexts (quick: a fixed family of 16; thorough: + every history of depth <= 3 over a 12-event alphabet) x restart point x {SIGKILL, SIGTERM} against the real `xs serve` binary, plus histories whose last event(s) reached the log without any consequence (appended while the server is down: a crash between the arrival of an event and its processing); after the restart sentinels prove each loop is live, then the announced handlers / started generators must be exactly the active ones with the same ids, every one of them answers a probe, commands are served by the latest definition of their own context, nothing stopped answers and no historical trigger or call is executed again"));
}

pub fn replay(v: &Value) -> i32 {
    let j = &v["job"];
    let h: Vec<Ev> = serde_json::from_value(j["history"].clone()).unwrap();
    let tail: Vec<Ev> = j.get("tail").and_then(|t| serde_json::from_value(t.clone()).ok()).unwrap_or_default();
    let (fs, outcome) = run_history_t(&h, j["restart_after"].as_u64().unwrap() as usize, j["sig"].as_str().unwrap(), &tail);
    println!("outcome {}", outcome);
    for f in &fs {
        println!("finding {}: {}", f.kind, f.msg);
    }
    if fs.is_empty() {
        0
    } else {
        1
    }
}
