//! Shared plumbing: evidence files, violation artefacts, known findings, scratch stores,
//! worker pool.
use std::collections::BTreeMap;
use std::io::{BufRead, BufReader, Write};
use std::path::{Path, PathBuf};
use std::process::{Child, Command, Stdio};
use std::sync::atomic::{AtomicU64, Ordering};
use std::sync::mpsc;
use std::time::{Duration, Instant};

use serde::{Deserialize, Serialize};
use serde_json::{json, Value};

pub const VERIF: &str = "/verif";

/// Where evidence / replays are written: /verif, unless XSMC_OUT points elsewhere (background
/// runs from a snapshot must not overwrite the evidence of the registered checks).
pub fn out_dir() -> PathBuf {
    std::env::var("XSMC_OUT").map(PathBuf::from).unwrap_or_else(|_| PathBuf::from(VERIF))
}

pub fn tier_is_thorough(tier: &str) -> bool {
    tier == "thorough"
}

pub fn ncpu() -> usize {
    std::thread::available_parallelism()
        .map(|n| n.get())
        .unwrap_or(4)
}

// ---------------------------------------------------------------------------------------
// scratch directories
// ---------------------------------------------------------------------------------------

static SCRATCH_N: AtomicU64 = AtomicU64::new(0);

pub fn scratch_root() -> PathBuf {
    let base = if Path::new("/dev/shm").is_dir() {
        PathBuf::from("/dev/shm")
    } else {
        std::env::temp_dir()
    };
    base.join(format!("xsmc-{}", std::process::id()))
}

pub fn scratch_dir(tag: &str) -> PathBuf {
    let n = SCRATCH_N.fetch_add(1, Ordering::SeqCst);
    let d = scratch_root().join(format!("{}-{}", tag, n));
    let _ = std::fs::remove_dir_all(&d);
    std::fs::create_dir_all(&d).unwrap();
    d
}

pub fn cleanup_scratch() {
    let _ = std::fs::remove_dir_all(scratch_root());
}

// ---------------------------------------------------------------------------------------
// store lifecycle
// ---------------------------------------------------------------------------------------

/// Close a store: stop its GC worker, drop our handle and wait (bounded) until the last clone
/// is gone, i.e. the keyspace has been dropped. Returns false if something still holds it.
pub fn close_store(store: xs::store::Store, wait: Duration) -> bool {
    let token = store.verif_hooks().alive_token();
    store.verif_hooks().gc_set_gated(false);
    store.verif_close();
    drop(store);
    let t0 = Instant::now();
    while token.strong_count() > 0 {
        if t0.elapsed() > wait {
            return false;
        }
        std::thread::sleep(Duration::from_micros(200));
    }
    true
}

/// Close without waiting (reaped in the background by the drop itself).
pub fn close_store_async(store: xs::store::Store) {
    store.verif_hooks().gc_set_gated(false);
    store.verif_close();
    std::thread::spawn(move || drop(store));
}

// ---------------------------------------------------------------------------------------
// violations and known findings
// ---------------------------------------------------------------------------------------

#[derive(Debug, Clone, Serialize, Deserialize)]
pub struct Violation {
    pub property: String,
    /// stable, specific identification of *what* fails (scenario + call site / input class)
    pub signature: String,
    pub message: String,
    /// everything needed to re-execute (engine-specific)
    pub replay: Value,
}

#[derive(Debug, Clone, Deserialize)]
pub struct KnownFinding {
    pub property: String,
    pub signature: String,
    #[serde(default)]
    pub status: String, // "open" | "fixed"
    #[serde(default)]
    pub description: String,
}

pub fn load_known_findings() -> Vec<KnownFinding> {
    let p = Path::new(VERIF).join("known_findings.json");
    match std::fs::read_to_string(&p) {
        Ok(s) => {
            let v: Value = serde_json::from_str(&s).expect("known_findings.json is not JSON");
            let arr = v
                .get("findings")
                .cloned()
                .unwrap_or_else(|| Value::Array(vec![]));
            serde_json::from_value(arr).expect("known_findings.json: bad shape")
        }
        Err(_) => vec![],
    }
}

fn fnv(s: &str) -> u64 {
    let mut h: u64 = 0xcbf29ce484222325;
    for b in s.bytes() {
        h ^= b as u64;
        h = h.wrapping_mul(0x100000001b3);
    }
    h
}

pub fn hash_str(s: &str) -> String {
    format!("{:016x}", fnv(s))
}

/// Outcome of a whole check run.
pub struct Report {
    pub property: String,
    pub tier: String,
    pub level: String,
    pub started: Instant,
    pub violations: Vec<Violation>,
    pub coverage: serde_json::Map<String, Value>,
    pub assumptions: Vec<String>,
}

impl Report {
    pub fn new(property: &str, tier: &str, level: &str) -> Report {
        Report {
            property: property.to_string(),
            tier: tier.to_string(),
            level: level.to_string(),
            started: Instant::now(),
            violations: vec![],
            coverage: serde_json::Map::new(),
            assumptions: vec![],
        }
    }

    pub fn cov(&mut self, k: &str, v: Value) {
        self.coverage.insert(k.to_string(), v);
    }

    pub fn add_violation(&mut self, v: Violation) {
        // one artefact per distinct signature (the first = shortest found)
        if self.violations.iter().any(|x| x.signature == v.signature) {
            return;
        }
        self.violations.push(v);
    }

    /// Writes evidence, replay artefacts, prints the verdict lines; returns the exit code.
    pub fn finish(mut self) -> i32 {
        let known = load_known_findings();
        let mut unknown = 0;
        let mut known_hits = 0;
        let replays = out_dir().join("replays");
        let _ = std::fs::create_dir_all(&replays);
        let mut listed = vec![];
        for v in &self.violations {
            let is_known = known.iter().any(|k| {
                k.property == v.property && k.signature == v.signature && k.status != "fixed"
            });
            if is_known {
                known_hits += 1;
                println!(
                    "KNOWN-FINDING: property={} {} :: {}",
                    v.property, v.signature, v.message
                );
            } else {
                unknown += 1;
                let file = replays.join(format!(
                    "{}-{}.json",
                    v.property,
                    hash_str(&format!("{}{}", v.signature, v.replay))
                ));
                let body = json!({
                    "property": v.property,
                    "signature": v.signature,
                    "message": v.message,
                    "replay": v.replay,
                });
                std::fs::write(&file, serde_json::to_string_pretty(&body).unwrap()).unwrap();
                println!("violation: {} :: {}", v.signature, v.message);
                println!(
                    "VIOLATION property={} replay={}",
                    v.property,
                    file.display()
                );
            }
            listed.push(json!({"signature": v.signature, "message": v.message, "known": is_known}));
        }
        let wall = self.started.elapsed().as_secs_f64();
        self.coverage
            .insert("violation_list".into(), Value::Array(listed));
        self.coverage
            .insert("known_findings_hit".into(), json!(known_hits));
        let seed: i64 = std::env::var("VERIF_SEED")
            .ok()
            .and_then(|s| s.parse().ok())
            .unwrap_or(0);
        let ev = json!({
            "property_id": self.property,
            "tier": self.tier,
            "seed": seed,
            "level": self.level,
            "coverage": Value::Object(self.coverage.clone()),
            "assumptions": self.assumptions,
            "wall_s": wall,
            "violations": unknown,
        });
        let evdir = out_dir().join("evidence");
        let _ = std::fs::create_dir_all(&evdir);
        let evfile = evdir.join(format!("{}.json", self.property));
        std::fs::write(&evfile, serde_json::to_string_pretty(&ev).unwrap() + "\n").unwrap();
        println!(
            "{} {}: {} violation(s), {} known finding(s), {:.1}s, evidence {}",
            self.property,
            self.tier,
            unknown,
            known_hits,
            wall,
            evfile.display()
        );
        if unknown > 0 {
            1
        } else {
            0
        }
    }
}

/// Merge the reports of several engines serving one property: counts are summed, everything
/// else is kept per engine.
pub fn merge_reports(into: &mut Report, parts: Vec<(&str, Report)>) {
    let mut engines = serde_json::Map::new();
    let (mut states, mut transitions, mut traces) = (0u64, 0u64, 0u64);
    let mut samples = vec![];
    let mut exhaustive = true;
    for (name, r) in parts {
        states += r.coverage.get("states").and_then(|v| v.as_u64()).unwrap_or(0);
        transitions += r.coverage.get("transitions").and_then(|v| v.as_u64()).unwrap_or(0);
        traces += r.coverage.get("traces_validated_against_impl").and_then(|v| v.as_u64()).unwrap_or(0);
        if let Some(Value::Array(a)) = r.coverage.get("samples") {
            samples.extend(a.iter().take(3).cloned());
        }
        if r.coverage.get("exhaustive").and_then(|v| v.as_bool()) == Some(false) {
            exhaustive = false;
        }
        for v in r.violations {
            into.add_violation(v);
        }
        engines.insert(name.to_string(), Value::Object(r.coverage));
    }
    into.cov("states", json!(states));
    into.cov("transitions", json!(transitions));
    into.cov("traces_validated_against_impl", json!(traces));
    into.cov("samples", Value::Array(samples));
    into.cov("exhaustive", json!(exhaustive));
    into.cov("engines", Value::Object(engines));
}

// ---------------------------------------------------------------------------------------
// worker pool (sub-processes of this binary speaking JSON lines)
// ---------------------------------------------------------------------------------------

struct Worker {
    child: Child,
    stdin: std::process::ChildStdin,
    stdout: BufReader<std::process::ChildStdout>,
}

fn spawn_worker(kind: &str, extra: &[String]) -> Worker {
    let exe = std::env::current_exe().unwrap();
    let mut child = Command::new(exe)
        .arg("worker")
        .arg(kind)
        .args(extra)
        .stdin(Stdio::piped())
        .stdout(Stdio::piped())
        .stderr(Stdio::inherit())
        .spawn()
        .expect("cannot spawn worker");
    let stdin = child.stdin.take().unwrap();
    let stdout = BufReader::new(child.stdout.take().unwrap());
    Worker {
        child,
        stdin,
        stdout,
    }
}

static POOL_HUNG: std::sync::atomic::AtomicBool = std::sync::atomic::AtomicBool::new(false);

pub fn job_timeout() -> Duration {
    Duration::from_secs(std::env::var("XSMC_JOB_TIMEOUT").ok().and_then(|s| s.parse().ok()).unwrap_or(120))
}

/// Run `jobs` on `n` worker sub-processes; results are returned in job order. A worker that
/// dies on a job yields `{"crashed": true, "job": <job>}` for it and is replaced.
pub fn pool_map(kind: &str, extra: &[String], n: usize, jobs: Vec<Value>) -> Vec<Value> {
    let total = jobs.len();
    if total == 0 {
        return vec![];
    }
    let n = n.min(total).max(1);
    POOL_HUNG.store(false, Ordering::SeqCst);
    let queue = std::sync::Arc::new(std::sync::Mutex::new(
        jobs.into_iter().enumerate().collect::<std::collections::VecDeque<_>>(),
    ));
    let (rtx, rrx) = mpsc::channel::<(usize, Value)>();
    let mut handles = vec![];
    for _ in 0..n {
        let queue = queue.clone();
        let rtx = rtx.clone();
        let kind = kind.to_string();
        let extra = extra.to_vec();
        handles.push(std::thread::spawn(move || {
            let mut w = spawn_worker(&kind, &extra);
            loop {
                let job = { queue.lock().unwrap().pop_front() };
                let Some((i, job)) = job else { break };
                if POOL_HUNG.load(Ordering::SeqCst) {
                    // a job of this run already hung: do not spend the watchdog time again
                    let _ = rtx.send((i, json!({"crashed": true, "skipped_after_hang": true, "panicked": "not run: an earlier job of this run hung", "job": job})));
                    continue;
                }
                let line = serde_json::to_string(&job).unwrap();
                let ok = writeln!(w.stdin, "{}", line).is_ok() && w.stdin.flush().is_ok();
                let mut out = String::new();
                // per-job watchdog: a subject that stops making progress (dead collector thread,
                // deadlock) must not hang the check
                let limit = job_timeout();
                let done = std::sync::Arc::new(std::sync::atomic::AtomicBool::new(false));
                let timed_out = std::sync::Arc::new(std::sync::atomic::AtomicBool::new(false));
                let pid = w.child.id();
                {
                    let (done, timed_out) = (done.clone(), timed_out.clone());
                    std::thread::spawn(move || {
                        let t0 = Instant::now();
                        while !done.load(Ordering::SeqCst) {
                            if t0.elapsed() > limit {
                                timed_out.store(true, Ordering::SeqCst);
                                let _ = Command::new("kill").arg("-KILL").arg(pid.to_string()).status();
                                return;
                            }
                            std::thread::sleep(Duration::from_millis(50));
                        }
                    });
                }
                let got = if ok {
                    w.stdout.read_line(&mut out).unwrap_or(0)
                } else {
                    0
                };
                done.store(true, Ordering::SeqCst);
                if got == 0 {
                    let status = w.child.wait().ok();
                    let hung = timed_out.load(Ordering::SeqCst);
                    if hung {
                        POOL_HUNG.store(true, Ordering::SeqCst);
                    }
                    let _ = rtx.send((
                        i,
                        if hung {
                            json!({"crashed": true, "timeout": true, "panicked": format!("no answer within {} s: the subject stopped making progress (a dead worker thread of the store, or a deadlock)", limit.as_secs()), "job": job})
                        } else {
                            json!({"crashed": true, "status": format!("{:?}", status), "job": job})
                        },
                    ));
                    w = spawn_worker(&kind, &extra);
                    continue;
                }
                let v: Value = serde_json::from_str(&out)
                    .unwrap_or_else(|e| json!({"crashed": true, "bad_output": out, "err": e.to_string(), "job": job}));
                let respawn = v.get("panicked").is_some();
                let _ = rtx.send((i, v));
                if respawn {
                    let _ = w.child.wait();
                    w = spawn_worker(&kind, &extra);
                }
            }
            drop(w.stdin);
            let _ = w.child.wait();
        }));
    }
    drop(rtx);
    let mut results: BTreeMap<usize, Value> = BTreeMap::new();
    for (i, v) in rrx {
        results.insert(i, v);
    }
    for h in handles {
        let _ = h.join();
    }
    assert_eq!(results.len(), total, "pool lost results");
    results.into_values().collect()
}

/// Worker side: read one JSON job per line from stdin, answer one JSON line each.
pub fn worker_loop(mut f: impl FnMut(Value) -> Value) {
    let stdin = std::io::stdin();
    let stdout = std::io::stdout();
    for line in stdin.lock().lines() {
        let Ok(line) = line else { break };
        if line.trim().is_empty() {
            continue;
        }
        let job: Value = serde_json::from_str(&line).expect("worker: bad job");
        let res = f(job);
        let mut o = stdout.lock();
        writeln!(o, "{}", serde_json::to_string(&res).unwrap()).unwrap();
        o.flush().unwrap();
    }
    cleanup_scratch();
}
