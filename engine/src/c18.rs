//! C18: generator lifecycle -- start, ordered output, stop, restart, duplex input, spawn errors.
use std::collections::HashSet;
use std::time::{Duration, Instant};

use serde_json::{json, Value};

use xs::store::Frame;

use crate::common::{self, Report, Violation};
use crate::e5::{meta_str, Serve, World};

pub struct F {
    pub kind: String,
    pub msg: String,
}

fn exprs() -> Vec<(&'static str, Vec<&'static str>)> {
    vec![
        ("[]", vec![]),
        ("\"solo\"", vec!["solo"]),
        ("[\"a\" \"b\"]", vec!["a", "b"]),
        ("[\"a\" \"b\" \"c\"] | each {|x| $x}", vec!["a", "b", "c"]),
        ("1..3 | each {|x| $\"n($x)\"}", vec!["n1", "n2", "n3"]),
    ]
}

fn of_spawn(log: &[Frame], spawn: &str, name: &str) -> Vec<Frame> {
    log.iter().filter(|f| f.topic.starts_with(&format!("{}.", name)) && meta_str(f, "source_id").as_deref() == Some(spawn)).cloned().collect()
}

pub fn run_case(case: &Value) -> (Vec<F>, String) {
    let mut fs = vec![];
    let w = World::start(Serve { generators: true, ..Default::default() });
    let kind = case["kind"].as_str().unwrap();
    let label = case.to_string();
    let mut outcome = String::new();
    match kind {
        "lifecycle" => {
            let (expr, want) = exprs()[case["expr"].as_u64().unwrap() as usize].clone();
            let ctx = if case["ctx"].as_u64().unwrap() == 0 { w.ctx_a } else { w.ctx_b };
            let cycles = case["cycles"].as_u64().unwrap() as usize;
            let noise = w.append_c("noise", ctx, None, None);
            let _ = noise;
            let sp = w.append_c("gen.spawn", ctx, Some(expr), None);
            let per = want.len() + 2;
            let t0 = Instant::now();
            // wait for `cycles` complete lifecycles (each separated by the 1 s restart delay)
            let done = w.wait(
                |_| false,
                0.0,
            );
            let _ = done;
            let deadline = Duration::from_secs(10 + 2 * cycles as u64);
            // unrelated traffic (one frame every 150 ms, also in the other context) must not keep
            // the restart from happening
            let stop_traffic = std::sync::Arc::new(std::sync::atomic::AtomicBool::new(false));
            let traffic = if case["traffic"].as_bool().unwrap_or(false) {
                let (store, stop, other) = (w.store.clone(), stop_traffic.clone(), if ctx == w.ctx_a { w.ctx_b } else { w.ctx_a });
                Some(std::thread::spawn(move || {
                    let mut k = 0;
                    while !stop.load(std::sync::atomic::Ordering::SeqCst) {
                        let _ = store.append(Frame::builder("traffic", if k % 2 == 0 { ctx } else { other }).build());
                        k += 1;
                        std::thread::sleep(Duration::from_millis(150));
                    }
                }))
            } else {
                None
            };
            loop {
                let mine = of_spawn(&w.snapshot(), &sp.id.to_string(), "gen");
                if mine.iter().filter(|f| f.topic == "gen.stop").count() >= cycles && mine.len() >= per * cycles {
                    break;
                }
                if t0.elapsed() > deadline {
                    fs.push(F { kind: "c18.incomplete".into(), msg: format!("{}: after {:?} only {:?}", label, deadline, mine.iter().map(|f| f.topic.clone()).collect::<Vec<_>>()) });
                    break;
                }
                std::thread::sleep(Duration::from_millis(5));
            }
            stop_traffic.store(true, std::sync::atomic::Ordering::SeqCst);
            if let Some(t) = traffic {
                let _ = t.join();
            }
            let mine = of_spawn(&w.snapshot(), &sp.id.to_string(), "gen");
            let mut want_topics = vec![];
            for _ in 0..cycles {
                want_topics.push("gen.start".to_string());
                for _ in &want {
                    want_topics.push("gen.recv".to_string());
                }
                want_topics.push("gen.stop".to_string());
            }
            let got_topics: Vec<String> = mine.iter().take(per * cycles).map(|f| f.topic.clone()).collect();
            if got_topics != want_topics {
                fs.push(F { kind: "c18.sequence".into(), msg: format!("{}: events {:?}, expected {:?}", label, got_topics, want_topics) });
            } else {
                let mut i = 0;
                for _ in 0..cycles {
                    i += 1;
                    for s in &want {
                        let c = w.content(&mine[i]);
                        if c.as_deref() != Some(*s) {
                            fs.push(F { kind: "c18.content".into(), msg: format!("{}: recv #{} carries {:?}, the pipeline produced {:?}", label, i, c, s) });
                        }
                        i += 1;
                    }
                    i += 1;
                }
            }
            for f in &mine {
                if f.context_id != ctx {
                    fs.push(F { kind: "c18.context".into(), msg: format!("{}: {:?} landed in context {}", label, f.topic, f.context_id) });
                }
            }
            // every gen.* event of this context names a spawn
            for f in w.snapshot().iter().filter(|f| f.topic.starts_with("gen.") && f.topic != "gen.spawn") {
                if meta_str(f, "source_id") != Some(sp.id.to_string()) {
                    fs.push(F { kind: "c18.source_id".into(), msg: format!("{}: {:?} carries meta {:?}", label, f.topic, f.meta) });
                }
            }
            outcome = format!("{}x{}", cycles, want.len());
        }
        "errors" => {
            let ctx = w.ctx_a;
            // spawn without content
            let s1 = w.append_c("g1.spawn", ctx, None, None);
            let e1 = w.wait(|f| f.topic == "g1.spawn.error" && meta_str(f, "source_id") == Some(s1.id.to_string()), 20.0);
            match e1 {
                None => fs.push(F { kind: "c18.error.silent".into(), msg: "spawn without content: no spawn.error".into() }),
                Some(e) => {
                    if e.context_id != ctx || meta_str(&e, "reason").map(|r| r.is_empty()).unwrap_or(true) {
                        fs.push(F { kind: "c18.error.meta".into(), msg: format!("spawn.error {:?} ctx {}", e.meta, e.context_id) });
                    }
                }
            }
            // the refused spawn left nothing behind: a well-formed spawn of the same name starts
            let s1b = w.append_c("g1.spawn", ctx, Some("\"now-valid\""), None);
            match w.wait(|f| f.topic.starts_with("g1.") && f.topic != "g1.spawn" && meta_str(f, "source_id") == Some(s1b.id.to_string()), 20.0) {
                Some(f) if f.topic == "g1.start" => {}
                other => fs.push(F { kind: "c18.error.sticky".into(), msg: format!("a well-formed spawn of a name whose previous spawn was refused answered {:?} {:?} instead of starting", other.as_ref().map(|f| f.topic.clone()), other.as_ref().and_then(|f| f.meta.clone())) }),
            }
            // spawn for a name that is already running (duplex generator keeps running)
            let s2 = w.append_c("g2.spawn", ctx, Some("each {|x| $x}"), Some(json!({"duplex": true})));
            w.wait(|f| f.topic == "g2.start" && meta_str(f, "source_id") == Some(s2.id.to_string()), 20.0);
            let s3 = w.append_c("g2.spawn", ctx, Some("\"other\""), None);
            let e3 = w.wait(|f| f.topic == "g2.spawn.error" && meta_str(f, "source_id") == Some(s3.id.to_string()), 20.0);
            if e3.is_none() {
                fs.push(F { kind: "c18.error.silent".into(), msg: "spawn for a running generator: no spawn.error naming it".into() });
            }
            // the same name in another context is a different generator
            let s4 = w.append_c("g2.spawn", w.ctx_b, Some("\"other-context\""), None);
            let r4 = w.wait(|f| f.topic.starts_with("g2.") && f.topic != "g2.spawn" && meta_str(f, "source_id") == Some(s4.id.to_string()), 20.0);
            match r4 {
                Some(f) if f.topic == "g2.start" => {}
                other => fs.push(F {
                    kind: "c18.context_collision".into(),
                    msg: format!("a spawn of the name `g2` in another context than the running one answered {:?} {:?} instead of starting", other.as_ref().map(|f| f.topic.clone()), other.as_ref().and_then(|f| f.meta.clone())),
                }),
            }
            std::thread::sleep(Duration::from_millis(50));
            let log = w.snapshot();
            for (sid, what) in [(s1.id, "no content"), (s3.id, "already running")] {
                let n = log.iter().filter(|f| f.topic.ends_with(".spawn.error") && meta_str(f, "source_id") == Some(sid.to_string())).count();
                if n != 1 {
                    fs.push(F { kind: "c18.error.count".into(), msg: format!("spawn ({}) produced {} spawn.error frames", what, n) });
                }
                if log.iter().any(|f| f.topic.ends_with(".start") && meta_str(f, "source_id") == Some(sid.to_string())) {
                    fs.push(F { kind: "c18.error.started".into(), msg: format!("spawn ({}) was started although it was reported as failed", what) });
                }
            }
            outcome = "errors".into();
        }
        "rejected" => {
            // spawns that cannot be honoured (name already running / no content) arriving while an
            // instance of the name exists: each yields one spawn.error, none is started, and the
            // running instance keeps its lifecycle (restart after stop, sole consumer of sends)
            let ctx = w.ctx_a;
            let duplex = case["duplex"].as_bool().unwrap_or(false);
            let sp = if duplex {
                w.append_c("rg.spawn", ctx, Some("lines | first 1 | each {|x| $\"echo:($x)\"}"), Some(json!({"duplex": true})))
            } else {
                w.append_c("rg.spawn", ctx, Some("\"solo\""), None)
            };
            let st = w.wait(|f| f.topic == "rg.start" && meta_str(f, "source_id") == Some(sp.id.to_string()), 20.0);
            if st.is_none() {
                fs.push(F { kind: "c18.incomplete".into(), msg: format!("{}: no start", label) });
            }
            if !duplex {
                // between two lifecycles: the name is still taken
                w.wait(|f| f.topic == "rg.stop" && meta_str(f, "source_id") == Some(sp.id.to_string()), 20.0);
            }
            let mut rejected = vec![];
            for r in case["rejects"].as_array().cloned().unwrap_or_default() {
                let f = match r.as_str().unwrap_or("") {
                    "nocontent" => w.append_c("rg.spawn", ctx, None, None),
                    _ => w.append_c("rg.spawn", ctx, Some("\"intruder\""), None),
                };
                let e = w.wait(|x| x.topic.starts_with("rg.") && x.topic != "rg.spawn" && meta_str(x, "source_id") == Some(f.id.to_string()), 20.0);
                match e {
                    Some(e) if e.topic == "rg.spawn.error" => {}
                    other => fs.push(F { kind: if other.is_some() { "c18.error.started".into() } else { "c18.error.silent".into() }, msg: format!("{}: a spawn ({}) for a name that has an instance answered {:?} instead of spawn.error", label, r, other.map(|f| f.topic)) }),
                }
                rejected.push(f.id.to_string());
            }
            let mark = w.append_c("mark", ctx, None, None);
            if duplex {
                w.append_c("rg.send", ctx, Some("one\n"), None);
                let stop = w.wait(|f| f.topic == "rg.stop" && f.id > mark.id && meta_str(f, "source_id") == Some(sp.id.to_string()), 20.0);
                if stop.is_none() {
                    fs.push(F { kind: "c18.duplex.lost".into(), msg: format!("{}: the instance did not consume the send and end", label) });
                }
            }
            // the original instance is started again
            let again = w.wait(|f| f.topic == "rg.start" && f.id > mark.id && meta_str(f, "source_id") == Some(sp.id.to_string()), 6.0);
            if again.is_none() {
                fs.push(F { kind: "c18.norestart".into(), msg: format!("{}: after rejected spawns the generator was not started again after its stop", label) });
            } else if duplex {
                std::thread::sleep(Duration::from_millis(300));
                w.append_c("rg.send", ctx, Some("two\n"), None);
                w.wait(|f| f.topic == "rg.recv" && w.content(f).as_deref() == Some("echo:two"), 20.0);
                std::thread::sleep(Duration::from_millis(100));
            }
            let log = w.snapshot();
            for id in &rejected {
                let n = log.iter().filter(|f| f.topic == "rg.spawn.error" && meta_str(f, "source_id").as_deref() == Some(id)).count();
                if n != 1 {
                    fs.push(F { kind: "c18.error.count".into(), msg: format!("{}: a rejected spawn produced {} spawn.error frames", label, n) });
                }
            }
            for f in log.iter().filter(|f| f.topic.starts_with("rg.") && f.topic != "rg.spawn" && f.topic != "rg.send" && f.topic != "rg.spawn.error") {
                if meta_str(f, "source_id") != Some(sp.id.to_string()) {
                    fs.push(F { kind: "c18.error.started".into(), msg: format!("{}: {} carries source_id {:?}: a rejected spawn runs", label, f.topic, meta_str(f, "source_id")) });
                    break;
                }
            }
            if duplex {
                for (msg, want) in [("echo:one", 1usize), ("echo:two", if again.is_some() { 1 } else { 0 })] {
                    let n = log.iter().filter(|f| f.topic == "rg.recv" && w.content(f).as_deref() == Some(msg)).count();
                    if n != want {
                        fs.push(F { kind: "c18.duplex.sequence".into(), msg: format!("{}: {:?} was produced {} times, expected {}", label, msg, n, want) });
                    }
                }
            }
            outcome = format!("rejected{}", rejected.len());
        }
        "duplex-sizes" => {
            // sends of very different sizes appended back to back: fed in frame order whatever
            // the time it takes to fetch each payload
            let ctx = w.ctx_a;
            let sp = w.append_c("len.spawn", ctx, Some("lines | each {|x| $\"len:($x | str length)\"}"), Some(json!({"duplex": true})));
            if w.wait(|f| f.topic == "len.start" && meta_str(f, "source_id") == Some(sp.id.to_string()), 20.0).is_none() {
                fs.push(F { kind: "c18.duplex.nostart".into(), msg: format!("{}: no start", label) });
            }
            let sizes: Vec<usize> = case["sizes"].as_array().unwrap().iter().map(|v| v.as_u64().unwrap() as usize).collect();
            let payloads: Vec<String> = sizes.iter().map(|n| format!("{}\n", "x".repeat(*n))).collect();
            // contents first, so that the send frames themselves follow each other immediately
            let hashes: Vec<_> = payloads.iter().map(|p| w.store.cas_insert_sync(p.as_bytes()).expect("cas")).collect();
            for h in hashes {
                w.store.append(Frame::builder("len.send", ctx).hash(h).build()).expect("harness append");
            }
            w.append_c("len.send", ctx, Some("last!\n"), None);
            if w.wait(|f| f.topic == "len.recv" && w.content(f).as_deref() == Some("len:5"), 30.0).is_none() {
                fs.push(F { kind: "c18.duplex.lost".into(), msg: format!("{}: the last send was never answered", label) });
            }
            let got: Vec<String> = w.snapshot().iter().filter(|f| f.topic == "len.recv" && meta_str(f, "source_id") == Some(sp.id.to_string())).filter_map(|f| w.content(f)).filter(|c| c != "len:5").collect();
            let want: Vec<String> = sizes.iter().map(|n| format!("len:{}", n)).collect();
            if got != want {
                fs.push(F { kind: "c18.duplex.sequence".into(), msg: format!("{}: the instance produced {:?}; the sends of its context, in frame order, call for {:?}", label, got, want) });
            }
            outcome = format!("sizes{}", got.len());
        }
        "duplex-restart" => {
            // a duplex pipeline that ends after 2 inputs: the restarted instance must not be fed
            // the sends of the previous lifecycle again
            let ctx = w.ctx_a;
            let sp = w.append_c("echo.spawn", ctx, Some("lines | first 2 | each {|x| $\"echo:($x)\"}"), Some(json!({"duplex": true})));
            w.wait(|f| f.topic == "echo.start" && meta_str(f, "source_id") == Some(sp.id.to_string()), 20.0);
            w.append_c("echo.send", ctx, Some("first-1\n"), None);
            w.append_c("echo.send", ctx, Some("first-2\n"), None);
            let stop = w.wait(|f| f.topic == "echo.stop" && meta_str(f, "source_id") == Some(sp.id.to_string()), 20.0);
            if stop.is_none() {
                fs.push(F { kind: "c18.duplex.nostop".into(), msg: format!("{}: the pipeline ended after two inputs but no stop was emitted", label) });
            } else {
                let stop = stop.unwrap();
                let restart = w.wait(|f| f.topic == "echo.start" && f.id > stop.id && meta_str(f, "source_id") == Some(sp.id.to_string()), 20.0);
                match restart {
                    None => fs.push(F { kind: "c18.norestart".into(), msg: format!("{}: the generator was not started again after its stop", label) }),
                    Some(rs) => {
                        std::thread::sleep(Duration::from_millis(300));
                        w.append_c("echo.send", ctx, Some("second-1\n"), None);
                        w.append_c("echo.send", ctx, Some("second-2\n"), None);
                        w.wait(|f| f.topic == "echo.stop" && f.id > rs.id && meta_str(f, "source_id") == Some(sp.id.to_string()), 20.0);
                        let got: Vec<String> = w.snapshot().iter().filter(|f| f.topic == "echo.recv" && f.id > rs.id).filter_map(|f| w.content(f)).take(2).collect();
                        let want = vec!["echo:second-1".to_string(), "echo:second-2".to_string()];
                        if got != want {
                            let kind = if got.iter().any(|g| g.contains("first")) { "c18.duplex.refed" } else { "c18.duplex.sequence" };
                            fs.push(F { kind: kind.into(), msg: format!("{}: the restarted instance produced {:?}; the sends appended while it ran were {:?}", label, got, want) });
                        }
                    }
                }
            }
            let firsts: Vec<String> = w.snapshot().iter().filter(|f| f.topic == "echo.recv").filter_map(|f| w.content(f)).filter(|c| c.contains("first")).collect();
            if firsts != vec!["echo:first-1".to_string(), "echo:first-2".to_string()] {
                fs.push(F { kind: "c18.duplex.refed".into(), msg: format!("{}: the sends of the first lifecycle were echoed as {:?} (exactly once each expected)", label, firsts) });
            }
            outcome = "duplex-restart".into();
        }
        _ => {
            // duplex: sends interleaved with other traffic
            let n = case["sends"].as_u64().unwrap() as usize;
            let ctx = w.ctx_a;
            let early = w.append_c("echo.send", ctx, Some("too-early\n"), None);
            let _ = early;
            // `lines` makes the sends self-delimiting whatever chunking the byte stream applies
            let sp = w.append_c("echo.spawn", ctx, Some("lines | each {|x| $\"echo:($x)\"}"), Some(json!({"duplex": true})));
            let st = w.wait(|f| f.topic == "echo.start" && meta_str(f, "source_id") == Some(sp.id.to_string()), 20.0);
            if st.is_none() {
                fs.push(F { kind: "c18.duplex.nostart".into(), msg: format!("{}: no start", label) });
            }
            let mut want = vec![];
            for i in 0..n {
                if case["noise"].as_bool().unwrap_or(false) {
                    w.append_c("unrelated", ctx, Some("zzz"), None);
                    w.append_c("echo.send", w.ctx_b, Some(&format!("foreign{}\n", i)), None);
                    w.append_c("echo.sendx", ctx, Some("not-a-send"), None);
                }
                w.append_c("echo.send", ctx, Some(&format!("m{}\n", i)), None);
                want.push(format!("echo:m{}", i));
            }
            // sentinel: one more send; its echo proves everything before was consumed
            w.append_c("echo.send", ctx, Some("last\n"), None);
            let fin = w.wait(|f| f.topic == "echo.recv" && w.content(f).as_deref() == Some("echo:last"), 20.0);
            if fin.is_none() {
                fs.push(F { kind: "c18.duplex.lost".into(), msg: format!("{}: the last send was never echoed", label) });
            }
            let got: Vec<String> = w
                .snapshot()
                .iter()
                .filter(|f| f.topic == "echo.recv" && meta_str(f, "source_id") == Some(sp.id.to_string()))
                .filter_map(|f| w.content(f))
                .filter(|c| c != "echo:last")
                .collect();
            if got != want {
                let kind = if got.iter().any(|g| g.contains("foreign")) { "c18.duplex.foreign_context" } else if got.iter().any(|g| g.contains("too-early")) { "c18.duplex.stale" } else { "c18.duplex.sequence" };
                fs.push(F { kind: kind.into(), msg: format!("{}: the instance echoed {:?}, the sends of its context while it ran were {:?}", label, got, want) });
            }
            outcome = format!("duplex{}", got.len());
        }
    }
    w.stop();
    (fs, outcome)
}

pub fn cases(thorough: bool) -> Vec<Value> {
    let mut v = vec![];
    for e in 0..exprs().len() {
        for ctx in 0..2 {
            if !thorough && ctx == 1 && e != 2 {
                continue;
            }
            v.push(json!({"kind": "lifecycle", "expr": e, "ctx": ctx, "cycles": if thorough || e == 2 { 2 } else { 1 }}));
        }
    }
    v.push(json!({"kind": "lifecycle", "expr": 2, "ctx": 0, "cycles": 3, "traffic": true}));
    v.push(json!({"kind": "lifecycle", "expr": 1, "ctx": 1, "cycles": 2, "traffic": true}));
    v.push(json!({"kind": "errors"}));
    v.push(json!({"kind": "duplex-restart"}));
    for sizes in [vec![4usize << 20, 1, 2, 3], vec![1, 4 << 20, 2, 3], vec![70000, 8192, 1, 8193]] {
        v.push(json!({"kind": "duplex-sizes", "sizes": sizes}));
    }
    for duplex in [false, true] {
        for rejects in [vec!["dup"], vec!["nocontent"], vec!["dup", "dup"], vec!["nocontent", "dup"]] {
            v.push(json!({"kind": "rejected", "duplex": duplex, "rejects": rejects}));
        }
    }
    for n in 0..=3 {
        for noise in [false, true] {
            v.push(json!({"kind": "duplex", "sends": n, "noise": noise}));
        }
    }
    v
}

pub fn worker() {
    common::worker_loop(move |job| {
        let (fs, outcome) = run_case(&job);
        json!({"findings": fs.iter().map(|f| json!({"kind": f.kind, "msg": f.msg})).collect::<Vec<_>>(), "outcome": outcome})
    });
}

pub fn run(tier: &str, report: &mut Report) {
    let cs = cases(common::tier_is_thorough(tier));
    let results = common::pool_map("c18", &[], common::ncpu(), cs.clone());
    let mut outcomes: HashSet<String> = HashSet::new();
    for (c, r) in cs.iter().zip(results.iter()) {
        if r.get("crashed").is_some() {
            eprintln!("HARNESS ERROR: worker crashed on {}: {}", c, r);
            std::process::exit(2);
        }
        outcomes.insert(r["outcome"].as_str().unwrap_or("").to_string());
        for f in r["findings"].as_array().cloned().unwrap_or_default() {
            report.add_violation(Violation {
                property: "C18".into(),
                signature: format!("E5:{}{}:{}", c["kind"].as_str().unwrap_or(""), c.get("expr").map(|e| format!("-expr{}", e)).unwrap_or_default(), f["kind"].as_str().unwrap_or("")),
                message: f["msg"].as_str().unwrap_or("").to_string(),
                replay: json!({"engine": "c18", "case": c}),
            });
        }
    }
    report.cov("states", json!(cs.len()));
    report.cov("transitions", json!(cs.len() * 5));
    report.cov("traces_validated_against_impl", json!(cs.len()));
    report.cov("cases", json!(cs.len()));
    report.cov("distinct_outcomes", json!(outcomes.len()));
    report.cov("exhaustive", json!(true));
    report.cov("samples", json!(cs.iter().step_by(4).take(4).collect::<Vec<_>>()));
    report.cov("explanation", json!("generator expressions yielding 0..3 strings as value / list / lazy stream x context x 1-2 consecutive lifecycles (real 1 s restart delay); spawn without content, spawn for a running name, same name in another context; duplex echo with 0..3 sends, with and without interleaved unrelated traffic, a send before the instance, a same-name send in another context and a look-alike topic, closed by a sentinel send"));
}

pub fn replay(v: &Value) -> i32 {
    let (fs, outcome) = run_case(&v["case"]);
    println!("outcome {}", outcome);
    for f in &fs {
        println!("finding {}: {}", f.kind, f.msg);
    }
    if fs.is_empty() {
        0
    } else {
        1
    }
}
