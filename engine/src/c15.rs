//! C15: handler output is stamped, scoped, ordered and all-or-nothing per call -- exhaustive
//! enumeration of handler script shapes against the real handler machinery.
use std::collections::HashSet;

use serde_json::{json, Value};

use xs::store::{Frame, TTL};

use crate::common::{self, Report, Violation};
use crate::e5::{is_boot, meta_str, Serve, World};

#[derive(Clone, Debug, serde::Serialize, serde::Deserialize)]
pub struct Program {
    /// per explicit append: 0 plain, 1 --meta colliding with the stamps, 2 --ttl head:1, 3 --context <other>,
    /// 4 --ttl bogus (the append itself fails: the whole invocation fails),
    /// 5 / 7 a frame the store refuses when it is emitted (`xs.context` outside the zero context, a
    /// topic with a NUL byte): the call is then either complete without it or fails as a whole
    pub appends: Vec<u8>,
    /// 0 nothing, 1 string, 2 int, 3 float, 4 bool, 5 list, 6 record, 7 empty string, 8 empty list, 9 empty record, 10 zero
    pub ret: u8,
    /// 0 none, 1 suffix, 2 ttl head:1, 3 ttl time, 4 ttl ephemeral + suffix
    pub ret_opts: u8,
    /// 0 none, 1 before the appends, 2 between, 3 after the appends
    pub fail: u8,
    /// the content store stops accepting writes after the closure's last explicit `.append` and
    /// before it returns (the write of the return value fails): the call fails as a whole
    #[serde(default)]
    pub cas_fault: bool,
}

pub fn programs(thorough: bool) -> Vec<Program> {
    let mut v = vec![];
    let mut app_sets: Vec<Vec<u8>> = vec![vec![]];
    for a in 0..5u8 {
        app_sets.push(vec![a]);
    }
    app_sets.push(vec![0, 4]);
    app_sets.push(vec![4, 0]);
    for r in [5u8, 7u8] {
        app_sets.push(vec![r]);
        app_sets.push(vec![0, r]);
        app_sets.push(vec![r, 0]);
        app_sets.push(vec![0, r, 0]);
        app_sets.push(vec![1, r, 2]);
    }
    for a in 0..4u8 {
        for b in 0..4u8 {
            if thorough || a == b || a == 0 || b == 3 {
                app_sets.push(vec![a, b]);
            }
        }
    }
    for apps in &app_sets {
        for ret in 0..11u8 {
            for ro in 0..5u8 {
                for fail in 0..4u8 {
                    if fail == 2 && apps.len() < 2 {
                        continue;
                    }
                    if !thorough {
                        // quick: every value of every dimension, pairs with the append shape
                        let base = (ret == 1) as u8 + (ro == 0) as u8 + (fail == 0) as u8;
                        if base < 2 {
                            continue;
                        }
                    }
                    v.push(Program { appends: apps.clone(), ret, ret_opts: ro, fail, cas_fault: false });
                }
            }
        }
    }
    for apps in [vec![0u8], vec![0, 1], vec![2, 0]] {
        for ret in [1u8, 6] {
            v.push(Program { appends: apps.clone(), ret, ret_opts: 0, fail: 0, cas_fault: true });
        }
    }
    v
}

fn ret_expr(r: u8) -> (&'static str, Option<Value>) {
    match r {
        0 => ("null", None),
        1 => ("\"text\"", Some(json!("text"))),
        2 => ("7", Some(json!(7))),
        3 => ("1.5", Some(json!(1.5))),
        4 => ("true", Some(json!(true))),
        5 => ("[1 \"a\"]", Some(json!([1, "a"]))),
        6 => ("{a: 1, b: \"x\"}", Some(json!({"a": 1, "b": "x"}))),
        // empty but not nothing: still a return value
        7 => ("\"\"", Some(json!(""))),
        8 => ("[]", Some(json!([]))),
        9 => ("{}", Some(json!({}))),
        _ => ("0", Some(json!(0))),
    }
}

pub fn script(p: &Program, other_ctx: &str) -> String {
    let mut body = String::new();
    body.push_str("    if $frame.topic == \"flush\" { return \"flushed\" }\n    if $frame.topic != \"trigger\" { return }\n");
    let fail = "    error make {msg: \"boom\"}\n";
    if p.fail == 1 {
        body.push_str(fail);
    }
    for (i, a) in p.appends.iter().enumerate() {
        let flags = match a {
            0 => "".to_string(),
            1 => " --meta {handler_id: \"forged\", frame_id: \"forged\", u: 1}".to_string(),
            2 => " --ttl head:1".to_string(),
            4 => " --ttl bogus".to_string(),
            _ => format!(" --context {}", other_ctx),
        };
        match a {
            5 => body.push_str(&format!("    \"c{}\" | .append xs.context\n", i)),
            7 => body.push_str(&format!("    \"c{}\" | .append $\"nul(char nul)x\"\n", i)),
            _ => body.push_str(&format!("    \"c{}\" | .append out{}{}\n", i, i, flags)),
        }
        if i == 0 && p.fail == 2 {
            body.push_str(fail);
        }
    }
    if p.fail == 3 {
        body.push_str(fail);
    }
    if p.cas_fault {
        body.push_str("    \"x\" | save -f ($env.XSMC_MARK + \".1\")\n    loop { if (($env.XSMC_MARK + \".2\") | path exists) { break }; sleep 5ms }\n");
    }
    body.push_str(&format!("    {}\n", ret_expr(p.ret).0));
    let ro = match p.ret_opts {
        0 => "".to_string(),
        1 => "  return_options: {suffix: \".done\"}\n".to_string(),
        2 => "  return_options: {ttl: \"head:1\"}\n".to_string(),
        3 => "  return_options: {ttl: \"time:3600000\"}\n".to_string(),
        _ => "  return_options: {suffix: \".eph\", ttl: \"ephemeral\"}\n".to_string(),
    };
    format!("{{\n  run: {{|frame|\n{}  }}\n{}}}", body, ro)
}

pub struct F {
    pub kind: String,
    pub msg: String,
}

pub fn run_program(p: &Program) -> (Vec<F>, String) {
    let mut fs = vec![];
    let w = World::start(Serve { handlers: true, ..Default::default() });
    let ctx = w.ctx_a;
    let other = w.ctx_b;
    let mark = w.dir.join("mark").to_string_lossy().to_string();
    let src = if p.cas_fault { format!("$env.XSMC_MARK = \"{}\"\n{}", mark, script(p, &other.to_string())) } else { script(p, &other.to_string()) };
    let reg = w.append_c("h.register", ctx, Some(&src), None);
    let mut outcome = String::new();
    let registered = w.wait(|f| (f.topic == "h.registered" || f.topic == "h.unregistered") && meta_str(f, "handler_id") == Some(reg.id.to_string()), 30.0);
    match &registered {
        Some(f) if f.topic == "h.registered" => {}
        other => {
            fs.push(F { kind: "c15.harness".into(), msg: format!("generated script did not register: {:?} :: {}", other.as_ref().map(|f| f.meta.clone()), src) });
            w.stop();
            return (fs, "noreg".into());
        }
    }
    let trigger = w.append_c("trigger", ctx, None, Some(json!({"t": 1})));
    if p.cas_fault {
        // the closure has done its explicit appends and waits: now the content store breaks
        let t0 = std::time::Instant::now();
        while !std::path::Path::new(&format!("{}.1", mark)).exists() {
            if t0.elapsed() > std::time::Duration::from_secs(20) {
                fs.push(F { kind: "c15.harness".into(), msg: format!("the closure never reached its marker :: {}", src) });
                w.stop();
                return (fs, "nomark".into());
            }
            std::thread::sleep(std::time::Duration::from_millis(2));
        }
        let tmp = w.dir.join("cacache").join("tmp");
        let _ = std::fs::remove_dir_all(&tmp);
        std::fs::write(&tmp, b"not a directory").expect("harness: cannot break the content store");
        std::fs::write(format!("{}.2", mark), b"go").unwrap();
    }
    let flush = w.append_c("flush", ctx, None, None);
    let (suffix, want_ttl): (&str, Option<TTL>) = match p.ret_opts {
        0 => (".out", None),
        1 => (".done", None),
        2 => (".out", Some(TTL::Head(1))),
        3 => (".out", Some(xs::store::parse_ttl("time:3600000").unwrap())),
        _ => (".eph", Some(TTL::Ephemeral)),
    };
    let ret_topic = format!("h{}", suffix);
    // terminal event: the answer to `flush`, or the unregistration
    let term = w.wait(
        |f| (f.topic == ret_topic && meta_str(f, "frame_id") == Some(flush.id.to_string())) || (f.topic == "h.unregistered" && meta_str(f, "handler_id") == Some(reg.id.to_string())),
        30.0,
    );
    let Some(term) = term else {
        fs.push(F { kind: "c15.no_terminal".into(), msg: format!("no answer to the flush frame and no unregistration within 30 s :: {:?}", p) });
        w.stop();
        return (fs, "hang".into());
    };
    let log = w.snapshot();
    let after: Vec<&Frame> = log
        .iter()
        .skip_while(|f| f.id != trigger.id)
        .skip(1)
        .take_while(|f| f.id != term.id)
        .filter(|f| !is_boot(f) && f.id != flush.id)
        .collect();
    let label = format!("{:?}", p);
    let refused = |a: &u8| *a == 5 || *a == 7;
    let may_fail = p.appends.iter().any(refused);
    if p.cas_fault && term.topic != "h.unregistered" {
        // the write of the return value went through after all: nothing to judge
        w.stop();
        return (fs, "nofault".into());
    }
    if p.fail != 0 || p.appends.contains(&4) || p.cas_fault || (may_fail && term.topic == "h.unregistered") {
        outcome.push_str("fail;");
        // nothing of the invocation appears; exactly one unregistered with the error
        if term.topic != "h.unregistered" {
            fs.push(F { kind: "c15.fail.not_unregistered".into(), msg: format!("{}: the closure fails but the handler kept running", label) });
        } else {
            if meta_str(&term, "frame_id") != Some(trigger.id.to_string()) || meta_str(&term, "error").map(|e| e.is_empty()).unwrap_or(true) {
                fs.push(F { kind: "c15.fail.meta".into(), msg: format!("{}: unregistered frame meta {:?}", label, term.meta) });
            }
            if term.context_id != ctx {
                fs.push(F { kind: "c15.context".into(), msg: format!("{}: unregistered frame in context {}", label, term.context_id) });
            }
        }
        for f in &after {
            fs.push(F { kind: "c15.fail.partial".into(), msg: format!("{}: the failing invocation still emitted {:?} (meta {:?})", label, f.topic, f.meta) });
        }
        // and nothing later either
        std::thread::sleep(std::time::Duration::from_millis(30));
        let late: Vec<Frame> = w.snapshot().into_iter().filter(|f| f.id > term.id && !is_boot(f)).collect();
        let extra_unreg = late.iter().filter(|f| f.topic == "h.unregistered").count();
        if extra_unreg > 0 {
            fs.push(F { kind: "c15.fail.twice".into(), msg: format!("{}: more than one h.unregistered", label) });
        }
        for f in late.iter().filter(|f| f.topic.starts_with("out") || f.topic == ret_topic) {
            fs.push(F { kind: "c15.fail.partial".into(), msg: format!("{}: output {:?} after the failure", label, f.topic) });
        }
    } else {
        if term.topic == "h.unregistered" {
            fs.push(F { kind: "c15.unexpected_unregister".into(), msg: format!("{}: handler unregistered itself: {:?} :: {}", label, term.meta, src) });
            w.stop();
            return (fs, "unreg".into());
        }
        // expected sequence: explicit appends in call order, then the return value
        let mut want: Vec<(String, Option<TTL>, Option<String>, bool)> = vec![];
        for (i, a) in p.appends.iter().enumerate() {
            if refused(a) {
                continue;
            }
            let ttl = if *a == 2 { Some(TTL::Head(1)) } else { None };
            want.push((format!("out{}", i), ttl, Some(format!("c{}", i)), *a == 1));
        }
        if let Some(v) = ret_expr(p.ret).1 {
            want.push((ret_topic.clone(), want_ttl.clone(), Some(v.to_string()), false));
        }
        outcome.push_str(&format!("ok{};", want.len()));
        if after.len() != want.len() {
            fs.push(F { kind: "c15.count".into(), msg: format!("{}: invocation produced {:?}, expected {:?}", label, after.iter().map(|f| f.topic.clone()).collect::<Vec<_>>(), want.iter().map(|x| x.0.clone()).collect::<Vec<_>>()) });
        }
        for (f, (topic, ttl, content, user_meta)) in after.iter().zip(want.iter()) {
            if &f.topic != topic {
                fs.push(F { kind: "c15.order".into(), msg: format!("{}: got {:?} where {:?} was expected (order of emission)", label, f.topic, topic) });
            }
            if meta_str(f, "handler_id") != Some(reg.id.to_string()) || meta_str(f, "frame_id") != Some(trigger.id.to_string()) {
                fs.push(F { kind: "c15.stamp".into(), msg: format!("{}: {:?} carries meta {:?}, expected handler_id {} frame_id {}", label, f.topic, f.meta, reg.id, trigger.id) });
            }
            if *user_meta && f.meta.as_ref().and_then(|m| m.get("u")) != Some(&json!(1)) {
                fs.push(F { kind: "c15.usermeta".into(), msg: format!("{}: user meta lost on {:?}: {:?}", label, f.topic, f.meta) });
            }
            if f.context_id != ctx {
                fs.push(F { kind: "c15.context".into(), msg: format!("{}: {:?} landed in context {} instead of the handler's", label, f.topic, f.context_id) });
            }
            let got_ttl = f.ttl.clone().filter(|t| *t != TTL::Forever);
            if &got_ttl != ttl {
                fs.push(F { kind: "c15.ttl".into(), msg: format!("{}: {:?} has ttl {:?}, expected {:?}", label, f.topic, f.ttl, ttl) });
            }
            let got = w.content(f);
            if &got != content {
                fs.push(F { kind: "c15.content".into(), msg: format!("{}: content of {:?} is {:?}, expected {:?}", label, f.topic, got, content) });
            }
        }
    }
    // nothing may ever land in the other context
    for f in w.snapshot().iter().filter(|f| f.context_id == other) {
        fs.push(F { kind: "c15.context".into(), msg: format!("{}: frame {:?} landed in the other context", label, f.topic) });
    }
    w.stop();
    (fs, outcome)
}

/// A closure that appends explicitly and returns a frame this same handler emitted earlier
/// (`.head` of its own topic): the return value is not emitted again, the explicit append of
/// *this* call is - stamped with this call's trigger, before anything of a later call.
pub fn run_own_return() -> (Vec<F>, String) {
    let mut fs = vec![];
    let w = World::start(Serve { handlers: true, ..Default::default() });
    let ctx = w.ctx_a;
    let src = "{\n  run: {|frame|\n    if $frame.topic == \"flush\" { return \"flushed\" }\n    if $frame.topic != \"trigger\" { return }\n    \"entry\" | .append journal\n    .head journal\n  }\n}";
    let reg = w.append_c("h.register", ctx, Some(src), None);
    if w.wait(|f| f.topic == "h.registered" && meta_str(f, "handler_id") == Some(reg.id.to_string()), 30.0).is_none() {
        fs.push(F { kind: "c15.harness".into(), msg: "own-return script did not register".into() });
        w.stop();
        return (fs, "noreg".into());
    }
    let mut triggers = vec![];
    for _ in 0..3 {
        let t = w.append_c("trigger", ctx, None, None);
        // each call is complete before the next trigger arrives
        w.wait(|f| f.topic == "journal" && meta_str(f, "frame_id") == Some(t.id.to_string()), 3.0);
        triggers.push(t);
    }
    let flush = w.append_c("flush", ctx, None, None);
    let term = w.wait(|f| (f.topic == "h.out" && meta_str(f, "frame_id") == Some(flush.id.to_string())) || (f.topic == "h.unregistered" && meta_str(f, "handler_id") == Some(reg.id.to_string())), 30.0);
    if term.as_ref().map(|t| t.topic != "h.out").unwrap_or(true) {
        fs.push(F { kind: "c15.unexpected_unregister".into(), msg: format!("own-return script: no answer to the flush frame ({:?})", term.map(|t| t.meta)) });
    }
    let log = w.snapshot();
    let entries: Vec<&Frame> = log.iter().filter(|f| f.topic == "journal").collect();
    let got: Vec<Option<String>> = entries.iter().map(|f| meta_str(f, "frame_id")).collect();
    let want: Vec<Option<String>> = triggers.iter().map(|t| Some(t.id.to_string())).collect();
    if got != want {
        fs.push(F { kind: "c15.stamp".into(), msg: format!("a closure that appends and returns one of its own earlier frames: the explicit appends carry frame_id {:?}, the triggers were {:?} (each call's append belongs to that call)", got, want) });
    }
    for f in &entries {
        if meta_str(f, "handler_id") != Some(reg.id.to_string()) || f.context_id != ctx || w.content(f).as_deref() != Some("entry") {
            fs.push(F { kind: "c15.stamp".into(), msg: format!("own-return script: journal frame {:?} ctx {} content {:?}", f.meta, f.context_id, w.content(f)) });
        }
    }
    // the returned own frame is not emitted again
    let outs = log.iter().filter(|f| f.topic == "h.out" && triggers.iter().any(|t| meta_str(f, "frame_id") == Some(t.id.to_string()))).count();
    if outs != 0 {
        fs.push(F { kind: "c15.count".into(), msg: format!("own-return script: {} return frames for calls that returned one of the handler's own frames", outs) });
    }
    w.stop();
    (fs, "own-return".into())
}

pub fn worker() {
    common::worker_loop(move |job| {
        if job.get("own_return").is_some() {
            let (fs, outcome) = run_own_return();
            return json!({"findings": fs.iter().map(|f| json!({"kind": f.kind, "msg": f.msg})).collect::<Vec<_>>(), "outcome": outcome});
        }
        let p: Program = serde_json::from_value(job.clone()).unwrap();
        let (fs, outcome) = run_program(&p);
        json!({"findings": fs.iter().map(|f| json!({"kind": f.kind, "msg": f.msg})).collect::<Vec<_>>(), "outcome": outcome})
    });
}

pub fn run(tier: &str, report: &mut Report) {
    let progs = programs(common::tier_is_thorough(tier));
    let jobs: Vec<Value> = progs.iter().map(|p| serde_json::to_value(p).unwrap()).collect();
    // one more script shape, outside the grammar above: it needs several calls
    let own = common::pool_map("c15", &[], 1, vec![json!({"own_return": true})]);
    for f in own[0]["findings"].as_array().cloned().unwrap_or_default() {
        let kind = f["kind"].as_str().unwrap_or("?");
        if kind == "c15.harness" || own[0].get("crashed").is_some() {
            eprintln!("HARNESS ERROR: {}", own[0]);
            std::process::exit(2);
        }
        report.add_violation(Violation { property: "C15".into(), signature: format!("E5:own_return:{}", kind), message: f["msg"].as_str().unwrap_or("").to_string(), replay: json!({"engine": "c15", "own_return": true}) });
    }
    let results = common::pool_map("c15", &[], common::ncpu(), jobs.clone());
    let mut outcomes: HashSet<String> = HashSet::new();
    for (p, r) in progs.iter().zip(results.iter()) {
        if r.get("crashed").is_some() {
            eprintln!("HARNESS ERROR: worker crashed on {:?}: {}", p, r);
            std::process::exit(2);
        }
        outcomes.insert(format!("{}{}", r["outcome"].as_str().unwrap_or(""), p.ret_opts));
        for f in r["findings"].as_array().cloned().unwrap_or_default() {
            let kind = f["kind"].as_str().unwrap_or("?");
            if kind == "c15.harness" {
                eprintln!("HARNESS ERROR: {}", f["msg"]);
                std::process::exit(2);
            }
            report.add_violation(Violation {
                property: "C15".into(),
                signature: format!("E5:{}", kind),
                message: f["msg"].as_str().unwrap_or("").to_string(),
                replay: json!({"engine": "c15", "program": p}),
            });
        }
    }
    report.cov("states", json!(progs.len()));
    report.cov("transitions", json!(progs.len() * 4));
    report.cov("traces_validated_against_impl", json!(progs.len()));
    report.cov("programs", json!(progs.len()));
    report.cov("distinct_outcomes", json!(outcomes.len()));
    report.cov("exhaustive", json!(true));
    report.cov("samples", json!(progs.iter().step_by((progs.len() / 4).max(1)).take(4).map(|p| script(p, "<ctxB>")).collect::<Vec<_>>()));
    report.cov("explanation", json!("every handler script of the grammar {0..2 explicit .append with flags in {none, --meta colliding with the stamps, --ttl, --context other}, plus shapes with an append the store refuses at emission time (xs.context outside the zero context, NUL in the topic) in first / middle / last position} x {return nothing/string/int/float/bool/list/record/empty string/empty list/empty record/zero} x {return_options none/suffix/ttl head/ttl time/ephemeral+suffix} x {failure none/before/between/after the appends; content store failing between the last explicit append and the return value} (quick: every value of every dimension and all pairs with the append shape) is registered on a fresh store behind the real handlers::serve, triggered once and flushed by a sentinel frame; observed through a follower so ephemeral outputs count; plus a closure that appends explicitly and returns one of its own earlier frames, called three times"));
}

pub fn replay(v: &Value) -> i32 {
    if v.get("own_return").is_some() {
        let (fs, o) = run_own_return();
        println!("outcome {}", o);
        for f in &fs {
            println!("finding {}: {}", f.kind, f.msg);
        }
        return if fs.is_empty() { 0 } else { 1 };
    }
    let p: Program = serde_json::from_value(v["program"].clone()).unwrap();
    println!("{}", script(&p, "<ctxB>"));
    let (fs, o) = run_program(&p);
    println!("outcome {}", o);
    for f in &fs {
        println!("finding {}: {}", f.kind, f.msg);
    }
    if fs.is_empty() {
        0
    } else {
        1
    }
}
