//! E2 scenarios, execution of one schedule, oracles (C02, C03, C11), exploration driver.
use std::collections::{BTreeMap, BTreeSet, HashSet};
use std::sync::{Arc, Mutex};
use std::time::{Duration, Instant};

use scru128::Scru128Id;
use serde::{Deserialize, Serialize};
use serde_json::{json, Value};

use xs::store::{FollowOption, Frame, ReadOptions, Store, TTL, ZERO_CONTEXT};
use xs::verif::Who;

use crate::common::{self, Report, Violation};
use crate::model::parse_ttl_opt;
use crate::sched::{label, Ctl, CtlError, ExtGuard};

#[derive(Serialize, Deserialize, Clone, Debug)]
pub struct FrameSpec {
    pub topic: String,
    /// 0 = zero context, k = k-th registered context
    pub ctx: usize,
    pub ttl: String,
    /// "" = append this frame; "reimport:<k>" = import the k-th frame of the pre-history again,
    /// unchanged; "remove:<k>" = remove it
    #[serde(default)]
    pub act: String,
}

fn fs(topic: &str, ctx: usize, ttl: &str) -> FrameSpec {
    FrameSpec {
        topic: topic.into(),
        ctx,
        ttl: ttl.into(),
        act: String::new(),
    }
}

fn act(a: &str) -> FrameSpec {
    FrameSpec {
        topic: String::new(),
        ctx: 0,
        ttl: String::new(),
        act: a.into(),
    }
}

#[derive(Serialize, Deserialize, Clone, Debug)]
pub struct ReaderSpec {
    /// "off" | "on" | "hb"
    pub follow: String,
    pub tail: bool,
    /// index into `pre`
    pub last_id: Option<usize>,
    pub limit: Option<usize>,
    pub ctx: Option<usize>,
    pub eager: bool,
}

#[derive(Serialize, Deserialize, Clone, Debug)]
pub struct Scenario {
    pub name: String,
    pub contexts: usize,
    pub pre: Vec<FrameSpec>,
    pub writers: Vec<Vec<FrameSpec>>,
    pub readers: Vec<ReaderSpec>,
    pub cap_broadcast: Option<usize>,
    pub cap_delivery: Option<usize>,
    pub max_ticks: u64,
    /// append one more in-scope frame per reader at quiescence and run on (stream-end check)
    pub probe: bool,
    /// points that are scheduling points in this scenario
    pub active: Vec<String>,
    /// preemption bound for this scenario (None = the tier's default)
    #[serde(default)]
    pub bound: Option<usize>,
    /// an actor that removes the registration frame of this context (C07)
    #[serde(default)]
    pub remove_ctx: Option<usize>,
    /// after the pre-history the clock jumps two hours: its `time:3600000` frames are expired
    /// (still stored, not yet collected) when the actors start
    #[serde(default)]
    pub clock_jump: bool,
    /// an actor whose single step moves the clock two hours ahead (C09: expiry is decided when
    /// a frame is about to be delivered, not when the read was issued)
    #[serde(default)]
    pub clock_actor: bool,
}

const ACTIVE_DEFAULT: &[&str] = &[
    "w.op",
    "append.enter",
    "append.lock",
    "append.id",
    "append.stored",
    "reader.start",
    "read.lock",
    "read.sub",
    "hist.start",
    "hist.send",
    "hist.done",
    "live.done",
    "live.recv",
    "live.send",
    "beat.tick",
    "beat.send",
    "clk.jump",
    "consumer.recv",
];

fn leak(s: &str) -> &'static str {
    Box::leak(s.to_string().into_boxed_str())
}

#[derive(Clone, Debug, Serialize)]
pub struct Finding {
    pub kind: String,
    pub msg: String,
}

#[derive(Clone, Debug, Serialize, Deserialize)]
pub struct PointRec {
    pub enabled: Vec<String>,
    pub chosen: usize,
    /// enabled[0] is the actor that ran last (switching away from it is a preemption)
    pub prev_enabled: bool,
}

pub struct ExecResult {
    pub points: Vec<PointRec>,
    pub findings: Vec<Finding>,
    pub outcome: String,
    pub steps: usize,
    pub error: Option<String>,
    pub schedule: Vec<String>,
    pub diverged: bool,
}

struct Appended {
    frame: Frame,
    writer: Option<usize>,
    began: usize,
    done: usize,
    stored: bool,
}

struct ReaderLog {
    delivered: Vec<Frame>,
    closed: bool,
}

fn who_w(i: usize) -> Who {
    Who::new("w", i as u128)
}
fn who_r(i: usize) -> Who {
    Who::new("rd", i as u128)
}

/// Execute one schedule (choice prefix, then default choices) of a scenario on a fresh store.
pub fn run_one(sc: &Scenario, prefix: &[usize], props: &[&str]) -> ExecResult {
    let dir = common::scratch_dir("e2");
    xs::verif::set_clock(None);
    xs::verif::set_caps(sc.cap_broadcast, sc.cap_delivery);
    let store = Store::new(dir.clone());
    xs::verif::set_caps(None, None);
    let rt = tokio::runtime::Builder::new_multi_thread()
        .worker_threads(4)
        .enable_all()
        .build()
        .unwrap();

    // contexts and pre-history, unmanaged
    let mut ctx_ids = vec![ZERO_CONTEXT];
    for _ in 0..sc.contexts {
        let f = store
            .append(Frame::builder("xs.context", ZERO_CONTEXT).build())
            .unwrap();
        ctx_ids.push(f.id);
    }
    let appended: Arc<Mutex<Vec<Appended>>> = Arc::new(Mutex::new(vec![]));
    let mut pre_ids = vec![];
    let mut pre_frames: Vec<Frame> = vec![];
    for p in &sc.pre {
        if p.act == "import-future" {
            // a frame that arrived by import and carries an id an hour ahead of the local clock
            // (exported on a machine whose clock runs ahead)
            let id = Scru128Id::from_u128(scru128::new().to_u128() + (3_600_000u128 << 80));
            let f = Frame::builder(p.topic.clone(), ctx_ids[p.ctx]).id(id).maybe_ttl(parse_ttl_opt(&p.ttl)).build();
            store.insert_frame(&f).expect("harness: import");
            pre_ids.push(f.id);
            pre_frames.push(f.clone());
            appended.lock().unwrap().push(Appended { frame: f, writer: None, began: 0, done: 0, stored: true });
            continue;
        }
        let f = store
            .append(
                Frame::builder(p.topic.clone(), ctx_ids[p.ctx])
                    .maybe_ttl(parse_ttl_opt(&p.ttl))
                    .build(),
            )
            .unwrap();
        pre_ids.push(f.id);
        pre_frames.push(f.clone());
        let stored = f.ttl != Some(TTL::Ephemeral);
        appended.lock().unwrap().push(Appended {
            frame: f,
            writer: None,
            began: 0,
            done: 0,
            stored,
        });
    }

    if sc.clock_jump {
        let now = std::time::SystemTime::now().duration_since(std::time::UNIX_EPOCH).unwrap().as_millis() as u64;
        xs::verif::set_clock(Some(now + 2 * 3_600_000));
    }
    let active: Vec<&'static str> = sc.active.iter().map(|s| leak(s)).collect();
    let ctl = Ctl::new(&active);
    let sched: Arc<dyn xs::verif::Sched> = ctl.clone();
    store.verif_hooks().install(Some(sched.clone()));

    // --- actors -------------------------------------------------------------------------
    let mut threads = vec![];
    let mut writer_whos = vec![];
    for (wi, ops) in sc.writers.iter().enumerate() {
        let who = who_w(wi + 1);
        writer_whos.push(who);
        sched.spawned(who);
        let ctl2 = ctl.clone();
        let store2 = store.clone();
        let ops = ops.clone();
        let ctx_ids = ctx_ids.clone();
        let appended = appended.clone();
        let pre_frames = pre_frames.clone();
        threads.push(std::thread::spawn(move || {
            xs::verif::set_actor(Some(who));
            let _g = ExtGuard {
                ctl: ctl2.clone(),
                who,
            };
            for op in ops {
                ctl2.ext_point(who, "w.op", &|| true);
                if let Some(k) = op.act.strip_prefix("reimport:") {
                    let _ = store2.insert_frame(&pre_frames[k.parse::<usize>().unwrap()]);
                    continue;
                }
                if let Some(rest) = op.act.strip_prefix("moveimport:") {
                    // the stored frame k is imported again under its id into another context
                    let mut it = rest.split(':');
                    let k: usize = it.next().unwrap().parse().unwrap();
                    let c: usize = it.next().unwrap().parse().unwrap();
                    let mut f = pre_frames[k].clone();
                    f.context_id = ctx_ids[c];
                    let _ = store2.insert_frame(&f);
                    continue;
                }
                if let Some(k) = op.act.strip_prefix("remove:") {
                    let _ = store2.remove(&pre_frames[k.parse::<usize>().unwrap()].id);
                    continue;
                }
                let began = ctl2.steps().len();
                // "deep": a frame the store refuses after its own checks (meta at the nesting limit)
                let meta = if op.act == "deep" {
                    let mut m = serde_json::Value::Null;
                    for _ in 0..127 {
                        m = serde_json::Value::Array(vec![m]);
                    }
                    Some(m)
                } else {
                    None
                };
                let r = store2.append(
                    Frame::builder(op.topic.clone(), ctx_ids[op.ctx])
                        .maybe_ttl(parse_ttl_opt(&op.ttl))
                        .maybe_meta(meta)
                        .build(),
                );
                let done = ctl2.steps().len();
                if let Ok(f) = r {
                    let stored = f.ttl != Some(TTL::Ephemeral);
                    appended.lock().unwrap().push(Appended {
                        frame: f,
                        writer: Some(wi + 1),
                        began,
                        done,
                        stored,
                    });
                }
            }
        }));
    }
    if sc.clock_actor {
        let who = Who::new("clk", 1);
        sched.spawned(who);
        let ctl2 = ctl.clone();
        threads.push(std::thread::spawn(move || {
            xs::verif::set_actor(Some(who));
            let _g = ExtGuard { ctl: ctl2.clone(), who };
            ctl2.ext_point(who, "clk.jump", &|| true);
            let now = std::time::SystemTime::now().duration_since(std::time::UNIX_EPOCH).unwrap().as_millis() as u64;
            xs::verif::set_clock(Some(now + 2 * 3_600_000));
        }));
    }
    if let Some(ci) = sc.remove_ctx {
        let who = Who::new("rm", 1);
        sched.spawned(who);
        let ctl2 = ctl.clone();
        let store2 = store.clone();
        let target = ctx_ids[ci];
        threads.push(std::thread::spawn(move || {
            xs::verif::set_actor(Some(who));
            let _g = ExtGuard { ctl: ctl2.clone(), who };
            ctl2.ext_point(who, "w.op", &|| true);
            let _ = store2.remove(&target);
        }));
    }
    let reader_logs: Vec<Arc<Mutex<ReaderLog>>> = sc
        .readers
        .iter()
        .map(|_| {
            Arc::new(Mutex::new(ReaderLog {
                delivered: vec![],
                closed: false,
            }))
        })
        .collect();
    let reader_start: Arc<Mutex<BTreeMap<usize, usize>>> = Arc::new(Mutex::new(BTreeMap::new()));
    for (ri, rs) in sc.readers.iter().enumerate() {
        let who = who_r(ri + 1);
        sched.spawned(who);
        let ctl2 = ctl.clone();
        let store2 = store.clone();
        let rs = rs.clone();
        let log = reader_logs[ri].clone();
        let handle = rt.handle().clone();
        let ctx_ids = ctx_ids.clone();
        let pre_ids = pre_ids.clone();
        let reader_start = reader_start.clone();
        threads.push(std::thread::spawn(move || {
            xs::verif::set_actor(Some(who));
            let _g = ExtGuard {
                ctl: ctl2.clone(),
                who,
            };
            ctl2.ext_point(who, "reader.start", &|| true);
            reader_start.lock().unwrap().insert(ri, ctl2.steps().len());
            let follow = match rs.follow.as_str() {
                "on" => FollowOption::On,
                "hb" => FollowOption::WithHeartbeat(Duration::from_millis(1)),
                _ => FollowOption::Off,
            };
            let opts = ReadOptions::builder()
                .follow(follow)
                .tail(rs.tail)
                .maybe_last_id(rs.last_id.map(|i| pre_ids[i]))
                .maybe_limit(rs.limit)
                .maybe_context_id(rs.ctx.map(|c| ctx_ids[c]))
                .build();
            let mut rx = handle.block_on(store2.read(opts));
            loop {
                {
                    let rxr = &rx;
                    ctl2.ext_point(who, "consumer.recv", &|| !rxr.is_empty() || rxr.is_closed());
                }
                match rx.try_recv() {
                    Ok(f) => log.lock().unwrap().delivered.push(f),
                    Err(tokio::sync::mpsc::error::TryRecvError::Disconnected) => {
                        log.lock().unwrap().closed = true;
                        break;
                    }
                    Err(tokio::sync::mpsc::error::TryRecvError::Empty) => {
                        if ctl2.is_free_run() {
                            break;
                        }
                    }
                }
            }
        }));
    }

    // --- scheduling loop --------------------------------------------------------------------
    let mut points: Vec<PointRec> = vec![];
    let mut schedule: Vec<String> = vec![];
    let mut findings: Vec<Finding> = vec![];
    let mut error: Option<String> = None;
    let mut diverged: Option<String> = None;
    let mut last: Option<Who> = None;
    let mut obs = Observer::new(&ctx_ids);
    let mut probed = false;
    let mut drain_left = 4 * sc.readers.len();
    let mut nsteps = 0usize;
    let watchdog = Duration::from_secs(20);
    let eager: BTreeSet<Who> = sc
        .readers
        .iter()
        .enumerate()
        .filter(|(_, r)| r.eager)
        .map(|(i, _)| who_r(i + 1))
        .collect();
    loop {
        let parked = match ctl.settle(watchdog) {
            Ok(p) => p,
            Err(CtlError::Watchdog(m)) => {
                error = Some(format!("watchdog: {} statuses={:?}", m, ctl.statuses()));
                break;
            }
        };
        let seen_eph: Vec<(Scru128Id, Scru128Id)> = appended.lock().unwrap().iter().filter(|a| !a.stored).map(|a| (a.frame.context_id, a.frame.id)).collect();
        obs.observe(&store, &mut findings, props, &seen_eph);
        if let Some(ci) = sc.remove_ctx {
            if obs.ctx_gone_at.is_none() && store.get(&ctx_ids[ci]).is_none() {
                obs.ctx_gone_at = Some(ctl.steps().len());
            }
        }
        // candidates: enabled, beat only within its tick horizon
        let mut cands: Vec<(Who, &'static str)> = parked
            .iter()
            .filter(|(w, _, en, grants)| *en && !(w.kind == "beat" && *grants >= 2 * sc.max_ticks))
            .map(|(w, op, _, _)| (*w, *op))
            .collect();
        let beat_over: Vec<Who> = parked
            .iter()
            .filter(|(w, _, en, grants)| *en && w.kind == "beat" && *grants >= 2 * sc.max_ticks)
            .map(|(w, _, _, _)| *w)
            .collect();
        if cands.is_empty() {
            // quiescent
            if sc.probe && !probed && ctl.all_finished(&writer_whos) {
                probed = true;
                for (ri, rs) in sc.readers.iter().enumerate() {
                    let c = rs.ctx.map(|c| ctx_ids[c]).unwrap_or(ZERO_CONTEXT);
                    let began = ctl.steps().len();
                    let f = store.append(Frame::builder(format!("probe{}", ri), c).build()).unwrap();
                    appended.lock().unwrap().push(Appended {
                        frame: f,
                        writer: Some(100 + ri),
                        began,
                        done: began,
                        stored: true,
                    });
                }
                continue;
            }
            // flush in-flight heartbeats (a pulse already being sent when the stream ended) so
            // that "the stream has ended" can be observed; not a decision (single candidate)
            if drain_left > 0 && !beat_over.is_empty() {
                drain_left -= 1;
                ctl.grant(beat_over[0]);
                nsteps += 1;
                continue;
            }
            break;
        }
        // an eager consumer is not a decision: run it at once
        if let Some(c) = cands.iter().find(|(w, op)| eager.contains(w) && *op == "consumer.recv") {
            ctl.grant(c.0);
            nsteps += 1;
            continue;
        }
        // canonical order: the actor that ran last first
        let mut prev_enabled = false;
        if let Some(l) = last {
            if let Some(pos) = cands.iter().position(|(w, _)| *w == l) {
                let c = cands.remove(pos);
                cands.insert(0, c);
                prev_enabled = true;
            }
        }
        let i = points.len();
        let choice = if i < prefix.len() { prefix[i] } else { 0 };
        if choice >= cands.len() && diverged.is_none() {
            // the subject did not repeat its behaviour under an identical schedule prefix; the
            // execution is still a legal one: finish it with default choices and let the oracles
            // decide (a divergence without any finding is reported as a harness error)
            diverged = Some(format!(
                "replay divergence at point {}: choice {} of {} enabled {:?}",
                i,
                choice,
                cands.len(),
                cands.iter().map(|(w, op)| format!("{}@{}", label(w), op)).collect::<Vec<_>>()
            ));
        }
        let choice = if diverged.is_some() { 0 } else { choice };
        points.push(PointRec {
            enabled: cands.iter().map(|(w, op)| format!("{}@{}", label(w), op)).collect(),
            chosen: choice,
            prev_enabled,
        });
        schedule.push(format!("{}@{}", label(&cands[choice].0), cands[choice].1));
        last = Some(cands[choice].0);
        ctl.grant(cands[choice].0);
        nsteps += 1;
        if nsteps > 2000 {
            error = Some("livelock: more than 2000 steps".into());
            break;
        }
    }

    // --- verdict --------------------------------------------------------------------------
    let steps = ctl.steps();
    let mut outcome = String::new();
    if error.is_none() {
        let app = appended.lock().unwrap();
        let starts = reader_start.lock().unwrap();
        let final_stream: Vec<Frame> = store.read_sync(None, None, None).collect();
        obs.finish(&final_stream, &mut findings, props);
        if let (Some(ci), Some(gone)) = (sc.remove_ctx, obs.ctx_gone_at) {
            for a in app.iter() {
                if a.frame.context_id == ctx_ids[ci] && a.writer.is_some() && a.began > gone && props.contains(&"C07") {
                    findings.push(Finding {
                        kind: "c07.accept_after_gone".into(),
                        msg: format!("append {} into the context was accepted although it began after an observer had already found the registration frame gone", a.frame.id),
                    });
                }
            }
        }
        if props.contains(&"C05") {
            // quiescent: by id <=> all-contexts stream <=> own context's stream; head is the last
            // frame of its topic in the context's stream
            let mut scopes = ctx_ids.clone();
            scopes.sort();
            scopes.dedup();
            for a in app.iter().filter(|a| a.stored) {
                let by_id = store.get(&a.frame.id).is_some();
                let in_all = final_stream.iter().any(|f| f.id == a.frame.id);
                let in_ctx = store.read_sync(None, None, Some(a.frame.context_id)).any(|f| f.id == a.frame.id);
                if by_id != in_all || by_id != in_ctx {
                    findings.push(Finding { kind: "c05.agree".into(), msg: format!("frame {} ({}): by id = {}, all-contexts stream = {}, its context's stream = {}", a.frame.id, a.frame.topic, by_id, in_all, in_ctx) });
                }
            }
            for c in &scopes {
                let cs: Vec<Frame> = store.read_sync(None, None, Some(*c)).collect();
                let topics: BTreeSet<String> = app.iter().map(|a| a.frame.topic.clone()).collect();
                for t in topics {
                    let want = cs.iter().filter(|f| f.topic == t).last().map(|f| f.id);
                    let got = store.head(&t, *c).map(|f| f.id);
                    if want != got {
                        findings.push(Finding { kind: "c05.head".into(), msg: format!("head({:?}, {}) = {:?} but the last frame of that topic in the context's stream is {:?}", t, c, got, want) });
                    }
                }
            }
        }
        let all_ids: BTreeSet<Scru128Id> = app.iter().map(|a| a.frame.id).collect();
        let rank = |id: &Scru128Id| all_ids.iter().position(|x| x == id).map(|r| r.to_string()).unwrap_or("s".into());
        let unstable: BTreeSet<Scru128Id> = sc
            .writers
            .iter()
            .flatten()
            .filter_map(|op| op.act.split(':').nth(1).and_then(|k| k.parse::<usize>().ok()))
            .filter_map(|k| pre_ids.get(k).cloned())
            .collect();
        for (ri, rs) in sc.readers.iter().enumerate() {
            let log = reader_logs[ri].lock().unwrap();
            let g_start = starts.get(&ri).cloned().unwrap_or(usize::MAX);
            let senders: Vec<&'static str> = steps
                .iter()
                .filter(|s| (s.who.kind == "hist" || s.who.kind == "live" || s.who.kind == "beat") && s.op.ends_with(".send"))
                .filter(|s| reader_of(&steps, s.who, sc.readers.len()) == Some(ri) || sc.readers.len() == 1)
                .map(|s| s.who.kind)
                .collect();
            // heartbeats whose tick (the end of the heartbeat's sleep) came after the live task of
            // this reader had ended: the stream was over when the pulse was decided. A pulse
            // whose tick preceded the end is merely in flight and legitimate.
            let mut live_done = false;
            let mut tick_after_end = false;
            let mut late_beats = 0usize;
            for s in steps.iter() {
                if reader_of(&steps, s.who, sc.readers.len()) != Some(ri) {
                    continue;
                }
                if s.who.kind == "live" && s.op == "finished" {
                    live_done = true;
                }
                if s.who.kind == "beat" && s.op == "beat.tick" {
                    tick_after_end = live_done;
                }
                if tick_after_end && s.who.kind == "beat" && s.op == "beat.send" {
                    late_beats += 1;
                }
            }
            // C09: a time:N frame of the pre-history is expired once the clock actor has run; the
            // scan decides about a frame in the step that precedes its hist.send
            if sc.clock_actor && props.contains(&"C09") {
                if let Some(jump) = steps.iter().position(|s| s.op == "clk.jump") {
                    let hist_steps: Vec<usize> = steps.iter().enumerate().filter(|(_, s)| s.who.kind == "hist" && reader_of(&steps, s.who, sc.readers.len()) == Some(ri) && (s.op == "hist.start" || s.op == "hist.send")).map(|(i, _)| i).collect();
                    let sends: Vec<usize> = hist_steps.iter().cloned().filter(|i| steps[*i].op == "hist.send").collect();
                    let hist_frames: Vec<&Frame> = log.delivered.iter().filter(|f| f.topic != "xs.pulse").take(sends.len()).collect();
                    for (k, f) in hist_frames.iter().enumerate() {
                        if !matches!(f.ttl, Some(TTL::Time(_))) {
                            continue;
                        }
                        let decided_in = hist_steps.iter().cloned().filter(|i| *i < sends[k]).max().unwrap_or(0);
                        if jump < decided_in {
                            findings.push(Finding { kind: "c09.expired_delivered".into(), msg: format!("reader{}: the time-limited frame {} was delivered by the stream read although the clock had passed its expiry before the scan reached it", ri, f.id) });
                        }
                    }
                }
            }
            // the subscription is taken in the step that follows the grant of `read.lock`
            let g_sub = steps.iter().position(|s| s.who.kind == "rd" && s.who.n as usize == ri + 1 && s.op == "read.lock").map(|p| p + 1).unwrap_or(g_start);
            check_reader(ri, rs, &log, g_start, g_sub, &app, &ctx_ids, &pre_ids, &senders, late_beats, &mut findings, props, probed || !sc.probe, sc.clock_jump, sc.clock_actor, &unstable);
            outcome.push_str(&format!(
                "r{}:[{}]{};",
                ri,
                log.delivered
                    .iter()
                    .map(|f| if f.topic == "xs.threshold" { "T".into() } else if f.topic == "xs.pulse" { "P".into() } else { rank(&f.id) })
                    .collect::<Vec<_>>()
                    .join(","),
                if log.closed { "$" } else { "" }
            ));
        }
        outcome.push_str(&format!(
            "S:[{}]",
            final_stream
                .iter()
                .map(|f| format!("{}w{}", rank(&f.id), app.iter().find(|a| a.frame.id == f.id).and_then(|a| a.writer).unwrap_or(0)))
                .collect::<Vec<_>>()
                .join(",")
        ));
        // synthetic frames are never stored
        for f in &final_stream {
            if f.topic == "xs.threshold" || f.topic == "xs.pulse" {
                if props.contains(&"C11") {
                    findings.push(Finding { kind: "synthetic.stored".into(), msg: format!("synthetic frame {} is stored", f.topic) });
                }
            }
        }
    }

    let was_diverged = diverged.is_some();
    if let Some(d) = diverged {
        if findings.is_empty() {
            error = Some(d);
        } else {
            for f in findings.iter_mut() {
                f.msg.push_str(&format!(" [the execution left the recorded schedule prefix: {}]", d));
            }
        }
    }

    // --- teardown -------------------------------------------------------------------------
    xs::verif::set_clock(None);
    ctl.release_all();
    for t in threads {
        let _ = t.join();
    }
    store.verif_hooks().install(None);
    drop(reader_logs);
    common::close_store_async(store);
    rt.shutdown_background();
    let d = dir.clone();
    std::thread::spawn(move || {
        std::thread::sleep(Duration::from_millis(700));
        let _ = std::fs::remove_dir_all(d);
    });
    ExecResult {
        points,
        findings,
        outcome,
        steps: nsteps,
        error,
        schedule,
        diverged: was_diverged,
    }
}

/// Which reader does a hist/live/beat actor belong to: read ids are handed out in the order in
/// which readers called `read`, i.e. the order of their `reader.start` grants.
fn reader_of(steps: &[crate::sched::Step], who: Who, _n: usize) -> Option<usize> {
    if !(who.kind == "hist" || who.kind == "live" || who.kind == "beat") {
        return None;
    }
    let order: Vec<usize> = steps
        .iter()
        .filter(|s| s.op == "reader.start")
        .map(|s| s.who.n as usize - 1)
        .collect();
    order.get(who.n as usize - 1).cloned()
}

struct Observer {
    ctxs: Vec<Scru128Id>,
    prev_all: Vec<Scru128Id>,
    prev_ctx: BTreeMap<Scru128Id, Vec<Scru128Id>>,
    poll_last: Option<Scru128Id>,
    polled: Vec<Scru128Id>,
    /// per context: a reconnecting follower (cursor = last frame it saw, stored or ephemeral)
    cpoll: BTreeMap<Scru128Id, (Option<Scru128Id>, Vec<Scru128Id>)>,
    snapshots: usize,
    /// step count at the first observation that found the removed registration frame gone
    ctx_gone_at: Option<usize>,
}

impl Observer {
    fn new(ctxs: &[Scru128Id]) -> Observer {
        Observer {
            ctxs: ctxs.to_vec(),
            prev_all: vec![],
            prev_ctx: BTreeMap::new(),
            poll_last: None,
            polled: vec![],
            cpoll: BTreeMap::new(),
            snapshots: 0,
            ctx_gone_at: None,
        }
    }

    fn grow(name: &str, prev: &[Scru128Id], cur: &[Scru128Id], findings: &mut Vec<Finding>) {
        let prev_set: BTreeSet<_> = prev.iter().collect();
        let cur_set: BTreeSet<_> = cur.iter().collect();
        for p in prev {
            if !cur_set.contains(p) {
                findings.push(Finding { kind: "c02.vanished".into(), msg: format!("{}: frame {} was visible and is not any more", name, p) });
            }
        }
        if let Some(max_prev) = prev.iter().max() {
            for c in cur {
                if !prev_set.contains(c) && c < max_prev {
                    findings.push(Finding {
                        kind: "c02.insert_below".into(),
                        msg: format!("{}: frame {} became visible after the larger id {} had already been observed", name, c, max_prev),
                    });
                }
            }
        }
    }

    fn observe(&mut self, store: &Store, findings: &mut Vec<Finding>, props: &[&str], seen_eph: &[(Scru128Id, Scru128Id)]) {
        if !props.contains(&"C02") {
            return;
        }
        // context-scoped resume: the cursor is the last frame the client saw in that context -
        // possibly an ephemeral one, which is not stored
        let mut scopes = self.ctxs.clone();
        scopes.push(ZERO_CONTEXT);
        scopes.sort();
        scopes.dedup();
        for c in scopes {
            let (cursor, polled) = self.cpoll.entry(c).or_insert((None, vec![]));
            let new: Vec<Scru128Id> = store.read_sync(cursor.as_ref(), None, Some(c)).map(|f| f.id).collect();
            for id in &new {
                if cursor.map(|l| *id <= l).unwrap_or(false) {
                    findings.push(Finding { kind: "c02.resume.before_cursor".into(), msg: format!("context {}: a read with last-id {} returned {} which is not after it", c, cursor.unwrap(), id) });
                } else if polled.contains(id) {
                    findings.push(Finding { kind: "c02.resume.twice".into(), msg: format!("context {}: frame {} was returned to the resuming client a second time", c, id) });
                }
            }
            if let Some(l) = new.last() {
                if cursor.map(|c0| *l > c0).unwrap_or(true) {
                    *cursor = Some(*l);
                }
            }
            polled.extend(new);
            if let Some(e) = seen_eph.iter().filter(|(ec, _)| *ec == c).map(|(_, id)| *id).max() {
                if cursor.map(|c0| e > c0).unwrap_or(true) {
                    *cursor = Some(e);
                }
            }
        }
        self.snapshots += 1;
        let all: Vec<Scru128Id> = store.read_sync(None, None, None).map(|f| f.id).collect();
        Self::grow("all-contexts stream", &self.prev_all, &all, findings);
        self.prev_all = all;
        for c in self.ctxs.clone() {
            let cur: Vec<Scru128Id> = store.read_sync(None, None, Some(c)).map(|f| f.id).collect();
            let prev = self.prev_ctx.get(&c).cloned().unwrap_or_default();
            Self::grow("context stream", &prev, &cur, findings);
            self.prev_ctx.insert(c, cur);
        }
        // the last-id poller
        let new: Vec<Scru128Id> = store.read_sync(self.poll_last.as_ref(), None, None).map(|f| f.id).collect();
        if let Some(l) = new.last() {
            self.poll_last = Some(*l);
        }
        self.polled.extend(new);
    }

    fn finish(&mut self, final_stream: &[Frame], findings: &mut Vec<Finding>, props: &[&str]) {
        if !props.contains(&"C02") {
            return;
        }
        for (c, (_, polled)) in &self.cpoll {
            let want: Vec<Scru128Id> = final_stream.iter().filter(|f| f.context_id == *c).map(|f| f.id).collect();
            let mut got = polled.clone();
            got.dedup();
            if got != want && self.snapshots > 0 {
                findings.push(Finding { kind: "c02.resume.incomplete".into(), msg: format!("context {}: the resuming client collected {:?}, the context's stream holds {:?}", c, got, want) });
            }
        }
        let want: Vec<Scru128Id> = final_stream.iter().map(|f| f.id).collect();
        if self.polled != want {
            let missing: Vec<_> = want.iter().filter(|w| !self.polled.contains(w)).collect();
            findings.push(Finding {
                kind: "c02.poller".into(),
                msg: format!(
                    "a client polling with last-id = last frame seen collected {} frames, the stream holds {}; missed {:?}",
                    self.polled.len(),
                    want.len(),
                    missing
                ),
            });
        }
    }
}

#[allow(clippy::too_many_arguments)]
fn check_reader(
    ri: usize,
    rs: &ReaderSpec,
    log: &ReaderLog,
    g_start: usize,
    g_sub: usize,
    app: &[Appended],
    ctx_ids: &[Scru128Id],
    pre_ids: &[Scru128Id],
    senders: &[&'static str],
    late_beats: usize,
    findings: &mut Vec<Finding>,
    props: &[&str],
    final_phase: bool,
    clock_jump: bool,
    time_optional: bool,
    unstable: &BTreeSet<Scru128Id>,
) {
    let follow = rs.follow != "off";
    let scope = rs.ctx.map(|c| ctx_ids[c]);
    let last_id = rs.last_id.map(|i| pre_ids[i]);
    let c03 = props.contains(&"C03");
    let c02 = props.contains(&"C02");
    let c11 = props.contains(&"C11");
    let c06 = props.contains(&"C06");
    let name = format!("reader{} {{follow:{}, tail:{}, last-id:{:?}, limit:{:?}, ctx:{:?}}}", ri, rs.follow, rs.tail, rs.last_id, rs.limit, rs.ctx);

    let real: Vec<&Frame> = log.delivered.iter().filter(|f| f.topic != "xs.threshold" && f.topic != "xs.pulse").collect();
    // order / duplicates (ids ahead of the local clock that arrived by import cannot be ordered
    // against ids assigned here: they are exempt from the order, not from exactly-once)
    let future: BTreeSet<Scru128Id> = app.iter().filter(|a| a.writer.is_none() && a.frame.id.timestamp() > scru128::new().timestamp() + 60_000).map(|a| a.frame.id).collect();
    let mut seen_once: BTreeSet<Scru128Id> = BTreeSet::new();
    for f in &real {
        if !seen_once.insert(f.id) && future.contains(&f.id) && (c03 || c02) {
            findings.push(Finding { kind: "follow.dup".into(), msg: format!("{}: delivered {} twice", name, f.id) });
        }
    }
    let ordered: Vec<&Frame> = real.iter().filter(|f| !future.contains(&f.id)).cloned().collect();
    for w in ordered.windows(2) {
        if w[1].id <= w[0].id {
            let k = if w[1].id == w[0].id { "dup" } else { "order" };
            if c03 || c02 {
                findings.push(Finding { kind: format!("follow.{}", k), msg: format!("{}: delivered {} after {}", name, w[1].id, w[0].id) });
            }
        }
    }
    // classification
    let mut required: Vec<&Appended> = vec![];
    let mut forbidden: BTreeSet<Scru128Id> = BTreeSet::new();
    for a in app {
        let in_scope = scope.map(|c| a.frame.context_id == c).unwrap_or(true);
        let after_pos = last_id.map(|l| a.frame.id > l).unwrap_or(true);
        // a time:N frame of the pre-history is expired once the clock has jumped: it does not match
        let expired = clock_jump && a.writer.is_none() && matches!(a.frame.ttl, Some(TTL::Time(_)));
        if !in_scope || !after_pos || expired {
            forbidden.insert(a.frame.id);
            continue;
        }
        if unstable.contains(&a.frame.id) {
            // a frame that another actor removes / re-imports / moves while the read runs: what
            // the reader owes depends on the instant; only the scope rule applies to it
            continue;
        }
        if time_optional && a.writer.is_none() && matches!(a.frame.ttl, Some(TTL::Time(_))) {
            // whether it is still alive depends on when the clock actor ran (judged separately)
            continue;
        }
        let existed = a.writer.is_none() || a.done < g_start; // append had returned before the read began
        let began_after_sub = a.writer.is_some() && a.began > g_sub;
        if rs.tail {
            if existed {
                forbidden.insert(a.frame.id);
            } else if began_after_sub && follow {
                required.push(a);
            }
        } else if a.stored {
            if follow || existed {
                required.push(a);
            } else if !follow && !existed {
                // non-following read: frames appended while it runs may or may not be seen
            }
        } else {
            // ephemeral
            if existed {
                forbidden.insert(a.frame.id);
            } else if began_after_sub && follow {
                required.push(a);
            }
        }
    }
    // a frame that was never accepted (its append was refused) is never delivered
    for f in &real {
        if !app.iter().any(|a| a.frame.id == f.id) && (c03 || c11) {
            findings.push(Finding { kind: "follow.phantom".into(), msg: format!("{}: delivered frame {} ({}) which no append or import was ever acknowledged for", name, f.id, f.topic) });
        }
    }
    // whatever happens to a frame while the read is under way: a scoped read never hands out a
    // frame that carries another context
    if let Some(c) = scope {
        for f in &real {
            if f.context_id != c && (c06 || c03) {
                findings.push(Finding { kind: "follow.foreign".into(), msg: format!("{}: delivered frame {} ({}) which carries context {}", name, f.id, f.topic, f.context_id) });
            }
        }
    }
    for f in &real {
        if forbidden.contains(&f.id) {
            let foreign = scope.map(|c| f.context_id != c).unwrap_or(false);
            if foreign && (c06 || c03) {
                findings.push(Finding { kind: "follow.foreign".into(), msg: format!("{}: delivered a frame of another context ({})", name, f.topic) });
            } else if !foreign && (c03 || c11) {
                findings.push(Finding { kind: "follow.forbidden".into(), msg: format!("{}: delivered {} ({}) which is before its start position / existed before a tail read", name, f.id, f.topic) });
            }
        }
    }
    let got: BTreeSet<Scru128Id> = real.iter().map(|f| f.id).collect();
    let limit_hit = rs.limit.map(|n| real.len() >= n).unwrap_or(false);
    // with a satisfied limit only frames up to the last delivered one were owed
    let max_got = real.iter().map(|f| f.id).max();
    let missing: Vec<&&Appended> = required
        .iter()
        .filter(|a| !got.contains(&a.frame.id))
        .filter(|a| !limit_hit || max_got.map(|m| a.frame.id < m).unwrap_or(false))
        .collect();
    if rs.limit.is_none() && !log.closed {
        // C03: everything required arrives while the stream is open
        for a in &missing {
            if c03 {
                findings.push(Finding { kind: "follow.missing".into(), msg: format!("{}: never received {} ({}, writer {:?}) although the stream is still open", name, a.frame.id, a.frame.topic, a.writer) });
            }
        }
    }
    // no gaps: no frame is delivered past a required frame that was skipped
    if let Some(first_missing) = missing.iter().map(|a| a.frame.id).min() {
        if let Some(f) = real.iter().find(|f| f.id > first_missing && !forbidden.contains(&f.id)) {
            if c11 || c03 {
                findings.push(Finding {
                    kind: "gap.frame".into(),
                    msg: format!("{}: frame {} was delivered after the required frame {} had been skipped", name, f.id, first_missing),
                });
            }
        }
        if c11 && follow && final_phase && !log.closed {
            findings.push(Finding { kind: "gap.open".into(), msg: format!("{}: required frame {} was never delivered and the stream is still open at quiescence", name, first_missing) });
        }
    }
    if c11 && late_beats > 0 {
        findings.push(Finding { kind: "pulse.after_end".into(), msg: format!("{}: {} heartbeat(s) were sent although the live subscription of this stream had already ended when the heartbeat's interval elapsed", name, late_beats) });
    }
    // C11: limit
    if let Some(n) = rs.limit {
        if c11 {
            if real.len() > n {
                findings.push(Finding { kind: "limit.exceeded".into(), msg: format!("{}: delivered {} frames", name, real.len()) });
            }
            let total_required = required.len();
            if !follow {
                let want: Vec<Scru128Id> = {
                    let mut v: Vec<Scru128Id> = required.iter().map(|a| a.frame.id).collect();
                    v.sort();
                    v.truncate(n);
                    v
                };
                let gotv: Vec<Scru128Id> = real.iter().map(|f| f.id).collect();
                // frames appended concurrently are optional; compare on the required prefix
                let got_req: Vec<Scru128Id> = gotv.iter().filter(|g| want.contains(g)).cloned().collect();
                if got_req != want && gotv.len() < n {
                    findings.push(Finding { kind: "limit.short".into(), msg: format!("{}: delivered {:?}, the first {} matching stored frames are {:?}", name, gotv, n, want) });
                }
                if !log.closed {
                    findings.push(Finding { kind: "limit.open".into(), msg: format!("{}: non-following read did not end", name) });
                }
            } else {
                if limit_hit && final_phase && !log.closed {
                    findings.push(Finding { kind: "limit.open".into(), msg: format!("{}: {} frames delivered but the stream is still open after one more matching frame was appended", name, real.len()) });
                }
                if !limit_hit && total_required >= n && final_phase {
                    findings.push(Finding { kind: "limit.short".into(), msg: format!("{}: only {} of {} frames delivered although {} matching frames exist", name, real.len(), n, total_required) });
                }
                // the first n: no required frame below the largest delivered one is missing (handled by gap.*)
            }
        }
    } else if !follow && c11 && !log.closed {
        findings.push(Finding { kind: "read.open".into(), msg: format!("{}: non-following read did not end", name) });
    }
    // threshold
    let thr_pos: Vec<usize> = log.delivered.iter().enumerate().filter(|(_, f)| f.topic == "xs.threshold").map(|(i, _)| i).collect();
    let expect_thr = follow && !rs.tail && rs.limit.is_none();
    if c03 {
        if expect_thr && thr_pos.len() != 1 && !log.closed {
            findings.push(Finding { kind: "threshold.count".into(), msg: format!("{}: {} threshold markers delivered, expected exactly one", name, thr_pos.len()) });
        }
        if thr_pos.len() > 1 {
            findings.push(Finding { kind: "threshold.count".into(), msg: format!("{}: {} threshold markers", name, thr_pos.len()) });
        }
        if let Some(tp) = thr_pos.first() {
            for a in app {
                let existed = a.writer.is_none() || a.done < g_start;
                if existed && a.stored && required.iter().any(|r| r.frame.id == a.frame.id) {
                    if let Some(p) = log.delivered.iter().position(|f| f.id == a.frame.id) {
                        if p > *tp {
                            findings.push(Finding { kind: "threshold.early".into(), msg: format!("{}: frame {} existed when the read began but was delivered after the threshold", name, a.frame.id) });
                        }
                    }
                }
            }
            // nothing is delivered live before the threshold
            if senders.len() >= log.delivered.len() {
                for (i, s) in senders.iter().enumerate().take(*tp) {
                    if *s == "live" {
                        findings.push(Finding { kind: "threshold.late".into(), msg: format!("{}: delivery #{} came from the live subscription before the threshold (position {})", name, i, tp) });
                        break;
                    }
                }
            }
        }
    }
    if c11 {
        if !expect_thr && rs.tail && !thr_pos.is_empty() {
            findings.push(Finding { kind: "synthetic.unasked".into(), msg: format!("{}: threshold delivered to a tail reader", name) });
        }
        if rs.follow != "hb" && log.delivered.iter().any(|f| f.topic == "xs.pulse") {
            findings.push(Finding { kind: "synthetic.unasked".into(), msg: format!("{}: pulse delivered to a reader that did not ask for heartbeats", name) });
        }
        if !follow && !thr_pos.is_empty() {
            findings.push(Finding { kind: "synthetic.unasked".into(), msg: format!("{}: threshold delivered to a non-following reader", name) });
        }
    }
}

// ---------------------------------------------------------------------------------------
// scenario families
// ---------------------------------------------------------------------------------------

fn base(name: &str) -> Scenario {
    Scenario {
        name: name.into(),
        contexts: 0,
        pre: vec![],
        writers: vec![],
        readers: vec![],
        cap_broadcast: None,
        cap_delivery: None,
        max_ticks: 0,
        probe: false,
        active: ACTIVE_DEFAULT.iter().map(|s| s.to_string()).collect(),
        bound: None,
        remove_ctx: None,
        clock_jump: false,
        clock_actor: false,
    }
}

fn rd(follow: &str, tail: bool, last_id: Option<usize>, limit: Option<usize>, ctx: Option<usize>) -> ReaderSpec {
    ReaderSpec {
        follow: follow.into(),
        tail,
        last_id,
        limit,
        ctx,
        eager: true,
    }
}

pub fn scenarios(prop: &str, tier: &str) -> Vec<Scenario> {
    let thorough = common::tier_is_thorough(tier);
    let mut v = vec![];
    match prop {
        "C02" => {
            let mut s = base("2w1");
            s.writers = vec![vec![fs("a", 0, "")], vec![fs("a", 0, "")]];
            v.push(s);
            let mut s = base("2w1-ctx");
            s.contexts = 1;
            s.writers = vec![vec![fs("a", 1, "")], vec![fs("b", 0, "")]];
            v.push(s);
            let mut s = base("2w1-follow");
            s.pre = vec![fs("a", 0, "")];
            s.writers = vec![vec![fs("a", 0, "")], vec![fs("b", 0, "")]];
            s.readers = vec![rd("on", false, None, None, None)];
            v.push(s);
            let mut s = base("2w1-eph-tail");
            s.writers = vec![vec![fs("a", 0, "ephemeral")], vec![fs("b", 0, "")]];
            s.readers = vec![rd("on", true, None, None, None)];
            v.push(s);
            let mut s = base("2w2");
            s.writers = vec![vec![fs("a", 0, ""), fs("a", 0, "")], vec![fs("b", 0, ""), fs("b", 0, "")]];
            v.push(s);
            // a resuming client whose cursor is an ephemeral frame (never stored), per context
            let mut s = base("2w2-eph-cursor-ctx");
            s.contexts = 1;
            s.pre = vec![fs("h", 1, ""), fs("h", 0, "")];
            s.writers = vec![vec![fs("a", 1, ""), fs("a", 1, "ephemeral")], vec![fs("b", 0, "ephemeral"), fs("b", 1, "")]];
            v.push(s);
            if thorough {
                let mut s = base("3w1");
                s.writers = vec![vec![fs("a", 0, "")], vec![fs("b", 0, "")], vec![fs("c", 0, "")]];
                v.push(s);
                let mut s = base("2w2-follow-ctx");
                s.contexts = 1;
                s.writers = vec![vec![fs("a", 1, ""), fs("a", 0, "")], vec![fs("b", 1, ""), fs("b", 0, "")]];
                s.readers = vec![rd("on", false, None, None, Some(1))];
                v.push(s);
            }
        }
        "C03" => {
            for h in 0..=2usize {
                for (start, tail, last) in [("begin", false, None), ("tail", true, None), ("lastid", false, Some(0usize))] {
                    if last.is_some() && h == 0 {
                        continue;
                    }
                    if !thorough && h == 2 && start != "begin" {
                        continue;
                    }
                    // one writer, two appends: every order of stored / ephemeral
                    for (pat, ttls) in [("de", ["", "ephemeral"]), ("ed", ["ephemeral", ""]), ("ee", ["ephemeral", "ephemeral"])] {
                        if pat == "ee" && !(thorough || (h == 1 && start == "begin")) {
                            continue;
                        }
                        if pat == "ed" && !thorough && h == 2 {
                            continue;
                        }
                        let mut s = base(&if pat == "de" { format!("h{}-{}-1w2", h, start) } else { format!("h{}-{}-1w2-{}", h, start, pat) });
                        s.pre = (0..h).map(|_| fs("h", 0, "")).collect();
                        s.writers = vec![vec![fs("a", 0, ttls[0]), fs("a", 0, ttls[1])]];
                        s.readers = vec![rd("on", tail, last, None, None)];
                        v.push(s);
                    }
                }
            }
            // the history holds a frame whose id lies in the future (imported from a machine whose
            // clock runs ahead): it existed when the read began
            for (start, tail) in [("begin", false), ("tail", true)] {
                let mut s = base(&format!("future-import-{}", start));
                let mut fut = fs("f", 0, "");
                fut.act = "import-future".into();
                s.pre = vec![fs("h", 0, ""), fut];
                s.writers = vec![vec![fs("a", 0, ""), fs("a", 0, "ephemeral")]];
                s.readers = vec![rd("on", tail, None, None, None)];
                s.bound = Some(1);
                v.push(s);
            }
            // an append the store refuses after its own checks is never delivered
            let mut s = base("h1-begin-refused");
            s.pre = vec![fs("h", 0, "")];
            let mut deep = fs("a", 0, "");
            deep.act = "deep".into();
            s.writers = vec![vec![deep, fs("a", 0, "")]];
            s.readers = vec![rd("on", false, None, None, None)];
            v.push(s);
            // a frame of the reader's scope is moved to another context (imported again under its
            // id) while the replay is under way
            let mut s = base("ctx-replay-vs-move");
            s.contexts = 2;
            s.cap_delivery = Some(1);
            s.pre = vec![fs("h", 1, ""), fs("h", 1, ""), fs("h", 1, "")];
            s.writers = vec![vec![act("moveimport:2:2")]];
            let mut r = rd("on", false, None, None, Some(1));
            r.eager = false;
            s.readers = vec![r];
            v.push(s);
            // scoped reader resuming from a last-id inside its context
            let mut s = base("h2-ctx-lastid-1w2");
            s.contexts = 1;
            s.pre = vec![fs("h", 1, ""), fs("h", 0, ""), fs("h", 1, "")];
            s.writers = vec![vec![fs("a", 1, ""), fs("a", 0, "")]];
            s.readers = vec![rd("on", false, Some(0), None, Some(1))];
            v.push(s);
            // scoped reader, writers in both contexts
            let mut s = base("h1-ctx-2w1");
            s.contexts = 2;
            s.pre = vec![fs("h", 1, ""), fs("h", 2, "")];
            s.writers = vec![vec![fs("a", 1, "")], vec![fs("b", 2, "")]];
            s.readers = vec![rd("on", false, None, None, Some(1))];
            v.push(s);
            // history longer than the delivery buffer (capacity 2), consumer is a real actor
            let mut s = base("h3-cap2-1w1");
            s.cap_delivery = Some(2);
            s.pre = (0..3).map(|_| fs("h", 0, "")).collect();
            s.writers = vec![vec![fs("a", 0, "")]];
            let mut r = rd("on", false, None, None, None);
            r.eager = false;
            s.readers = vec![r];
            v.push(s);
            // a lagging follower (broadcast capacity 2): while its stream stays open nothing may be missing
            for (nm, tail, pre) in [("lag-tail", true, 0usize), ("lag-replay", false, 2usize)] {
                let mut s = base(nm);
                s.cap_broadcast = Some(2);
                s.cap_delivery = Some(1);
                s.pre = (0..pre).map(|_| fs("h", 0, "")).collect();
                s.writers = vec![vec![fs("a", 0, ""), fs("a", 0, ""), fs("a", 0, ""), fs("a", 0, "")]];
                let mut r = rd("on", tail, None, None, None);
                r.eager = false;
                s.readers = vec![r];
                if !thorough {
                    s.bound = Some(1);
                }
                v.push(s);
            }
            if thorough {
                let mut s = base("h1-2w1");
                s.pre = vec![fs("h", 0, "")];
                s.writers = vec![vec![fs("a", 0, "")], vec![fs("b", 0, "ephemeral")]];
                s.readers = vec![rd("on", false, None, None, None)];
                v.push(s);
                let mut s = base("h101-real-caps");
                s.pre = (0..101).map(|_| fs("h", 0, "")).collect();
                s.writers = vec![vec![fs("a", 0, "")]];
                s.readers = vec![rd("on", false, None, None, None)];
                // scanning 101 items is one long default run; only writer steps are interleaved
                v.push(s);
            }
        }
        "C11" => {
            for n in [1usize, 2] {
                for h in [n - 1, n, n + 1] {
                    for follow in ["off", "on", "hb"] {
                        if !thorough && n == 2 && follow == "hb" && h != n {
                            continue;
                        }
                        let mut s = base(&format!("n{}-h{}-{}", n, h, follow));
                        s.pre = (0..h).map(|_| fs("h", 0, "")).collect();
                        s.writers = vec![vec![fs("a", 0, ""), fs("a", 0, "")]];
                        s.readers = vec![rd(follow, false, None, Some(n), None)];
                        s.max_ticks = if follow == "hb" { 1 } else { 0 };
                        s.probe = true;
                        // quick: the heartbeat scenarios (two scheduling points per pulse) keep the
                        // full bound where history < limit and history == limit
                        if !thorough && follow == "hb" && h > n {
                            s.bound = Some(1);
                        }
                        v.push(s);
                    }
                }
            }
            // expired-but-uncollected frames in front of / between the matches: they neither match nor count
            for (nm, pre, follow) in [
                ("n2-expired-front-off", vec!["t", "t", "f", "f", "f"], "off"),
                ("n2-expired-front-on", vec!["t", "t", "f", "f", "f"], "on"),
                ("n2-expired-mid-on", vec!["f", "t", "f", "f"], "on"),
                ("n2-expired-all-on", vec!["t", "t"], "on"),
            ] {
                let mut s = base(nm);
                s.pre = pre.iter().map(|k| if *k == "t" { fs("h", 0, "time:3600000") } else { fs("h", 0, "") }).collect();
                s.writers = vec![vec![fs("a", 0, ""), fs("a", 0, "")]];
                s.readers = vec![rd(follow, false, None, Some(2), None)];
                s.clock_jump = true;
                s.probe = true;
                if !thorough {
                    s.bound = Some(1);
                }
                v.push(s);
            }
            // ephemeral frames count towards a following limit like any delivered frame
            for (nm, n, follow) in [("n2-eph-on", 2usize, "on"), ("n3-eph-hb", 3usize, "hb")] {
                let mut s = base(nm);
                s.pre = vec![fs("h", 0, "")];
                s.writers = vec![vec![fs("a", 0, "ephemeral"), fs("a", 0, ""), fs("a", 0, "ephemeral")]];
                s.readers = vec![rd(follow, false, None, Some(n), None)];
                s.max_ticks = if follow == "hb" { 2 } else { 0 };
                s.probe = true;
                if !thorough {
                    s.bound = Some(1);
                }
                v.push(s);
            }
            // an append the store refuses while a limited follower is live: it is not delivered and
            // does not count
            let mut s = base("n2-tail-refused");
            s.pre = vec![fs("h", 0, "")];
            let mut deep = fs("a", 0, "");
            deep.act = "deep".into();
            s.writers = vec![vec![fs("a", 0, ""), deep, fs("a", 0, "")]];
            s.readers = vec![rd("on", true, None, Some(2), None)];
            s.probe = true;
            if !thorough {
                s.bound = Some(1);
            }
            v.push(s);
            // tail together with a last-id: tail wins, nothing stored is replayed (and nothing
            // replayed counts towards a limit)
            for (nm, lim) in [("tail-lastid", None), ("n1-tail-lastid", Some(1usize))] {
                let mut s = base(nm);
                s.pre = vec![fs("h", 0, ""), fs("h", 0, ""), fs("h", 0, "")];
                s.writers = vec![vec![fs("a", 0, ""), fs("a", 0, "")]];
                s.readers = vec![rd("on", true, Some(0), lim, None)];
                s.probe = true;
                if !thorough {
                    s.bound = Some(1);
                }
                v.push(s);
            }
            // tail + limit, context + limit, last-id + limit
            let mut s = base("n1-tail");
            s.pre = vec![fs("h", 0, "")];
            s.writers = vec![vec![fs("a", 0, ""), fs("a", 0, "")]];
            s.readers = vec![rd("on", true, None, Some(1), None)];
            s.probe = true;
            v.push(s);
            let mut s = base("n1-ctx-lastid");
            s.contexts = 1;
            s.pre = vec![fs("h", 1, ""), fs("h", 0, ""), fs("h", 1, "")];
            s.writers = vec![vec![fs("a", 0, ""), fs("a", 1, "")]];
            s.readers = vec![rd("on", false, Some(0), Some(2), Some(1))];
            s.probe = true;
            v.push(s);
            // synthetic frames go only to the stream that asked; a second plain follower
            let mut s = base("hb-and-plain");
            s.pre = vec![fs("h", 0, "")];
            s.writers = vec![vec![fs("a", 0, "")]];
            s.readers = vec![rd("hb", false, None, None, None), rd("on", true, None, None, None)];
            s.max_ticks = 2;
            if !thorough {
                s.bound = Some(1);
            }
            v.push(s);
            // lag: broadcast capacity 2, three live frames, slow consumer
            for follow in ["on", "hb"] {
                let mut s = base(&format!("lag-{}", follow));
                s.cap_broadcast = Some(2);
                s.cap_delivery = Some(1);
                s.writers = vec![vec![fs("a", 0, ""), fs("a", 0, ""), fs("a", 0, ""), fs("a", 0, "")]];
                let mut r = rd(follow, true, None, None, None);
                r.eager = false;
                s.readers = vec![r];
                s.max_ticks = if follow == "hb" { 2 } else { 0 };
                s.probe = true;
                if !thorough && follow == "hb" {
                    s.bound = Some(1);
                }
                v.push(s);
            }
            let mut s = base("lag-replay");
            s.cap_broadcast = Some(2);
            s.cap_delivery = Some(1);
            s.pre = vec![fs("h", 0, ""), fs("h", 0, "")];
            s.writers = vec![vec![fs("a", 0, ""), fs("a", 0, ""), fs("a", 0, "")]];
            let mut r = rd("on", false, None, None, None);
            r.eager = false;
            s.readers = vec![r];
            s.probe = true;
            if !thorough {
                s.bound = Some(1);
            }
            v.push(s);
        }
        "C07" => {
            // removal of a registration racing appends into that context
            let mut s = base("unregister-vs-append");
            s.contexts = 1;
            s.writers = vec![vec![fs("a", 1, ""), fs("a", 1, "")]];
            s.remove_ctx = Some(1);
            s.active.extend(["ctx.unregister", "commit.pre", "commit.sync", "commit.post"].iter().map(|x| x.to_string()));
            v.push(s);
            let mut s = base("unregister-vs-2-appenders");
            s.contexts = 1;
            s.writers = vec![vec![fs("a", 1, "")], vec![fs("b", 1, "ephemeral")]];
            s.remove_ctx = Some(1);
            s.active.extend(["ctx.unregister", "commit.pre", "commit.sync", "commit.post"].iter().map(|x| x.to_string()));
            v.push(s);
        }
        "C09" => {
            // the clock passes the expiry of a stored time:N frame while a read is under way
            for (nm, follow) in [("expire-during-read-off", "off"), ("expire-during-read-on", "on")] {
                let mut s = base(nm);
                s.pre = vec![fs("h", 0, ""), fs("h", 0, "time:3600000"), fs("h", 0, "")];
                s.writers = vec![vec![fs("a", 0, "")]];
                s.readers = vec![rd(follow, false, None, None, None)];
                s.clock_actor = true;
                v.push(s);
            }
        }
        "C05" => {
            // an import of a stored frame racing its removal (and an appender of the same topic)
            for (nm, ctx) in [("reimport-vs-remove", 0usize), ("reimport-vs-remove-ctx", 1usize)] {
                let mut s = base(nm);
                s.contexts = 1;
                s.pre = vec![fs("a", ctx, ""), fs("a", ctx, "")];
                s.writers = vec![vec![act("reimport:0")], vec![act("remove:0")], vec![fs("a", ctx, "")]];
                s.active.extend(["commit.pre", "commit.post"].iter().map(|x| x.to_string()));
                v.push(s);
            }
            let mut s = base("reimport-last-vs-remove");
            s.pre = vec![fs("a", 0, ""), fs("a", 0, "")];
            s.writers = vec![vec![act("reimport:1"), act("reimport:1")], vec![act("remove:1")]];
            s.active.extend(["commit.pre", "commit.post"].iter().map(|x| x.to_string()));
            v.push(s);
        }
        "C06" => {
            // scoped followers (from start, tail, last-id) with writers in both contexts
            let mut s = base("ctx-begin-2w1");
            s.contexts = 2;
            s.pre = vec![fs("a", 1, ""), fs("a", 2, ""), fs("a", 0, "")];
            s.writers = vec![vec![fs("a", 1, "")], vec![fs("a", 2, "ephemeral")]];
            s.readers = vec![rd("on", false, None, None, Some(2))];
            v.push(s);
            let mut s = base("ctx-tail-1w3");
            s.contexts = 2;
            s.pre = vec![fs("a", 2, "")];
            s.writers = vec![vec![fs("a", 1, ""), fs("a", 2, ""), fs("a", 0, "ephemeral")]];
            s.readers = vec![rd("on", true, None, None, Some(2)), rd("on", true, None, None, Some(0))];
            v.push(s);
            let mut s = base("ctx-replay-vs-move");
            s.contexts = 2;
            s.cap_delivery = Some(1);
            s.pre = vec![fs("h", 1, ""), fs("h", 1, ""), fs("h", 1, "")];
            s.writers = vec![vec![act("moveimport:2:2")]];
            let mut r = rd("on", false, None, None, Some(1));
            r.eager = false;
            s.readers = vec![r];
            v.push(s);
            let mut s = base("ctx-lastid-limit");
            s.contexts = 2;
            s.pre = vec![fs("a", 2, ""), fs("a", 1, ""), fs("a", 2, "")];
            s.writers = vec![vec![fs("a", 1, ""), fs("a", 2, "")]];
            s.readers = vec![rd("on", false, Some(0), Some(2), Some(2))];
            s.probe = true;
            v.push(s);
        }
        _ => panic!("no E2 scenarios for {}", prop),
    }
    v
}

// ---------------------------------------------------------------------------------------
// exploration
// ---------------------------------------------------------------------------------------

pub fn worker(prop: &str) {
    let prop = prop.to_string();
    // a heartbeat task polled while its runtime is being torn down panics inside tokio; that is
    // teardown noise of the harness, not behaviour of the subject
    let default_hook = std::panic::take_hook();
    std::panic::set_hook(Box::new(move |info| {
        let msg = info.to_string();
        if msg.contains("is being shutdown") {
            return;
        }
        default_hook(info);
    }));
    common::worker_loop(move |job| {
        let sc: Scenario = serde_json::from_value(job["scenario"].clone()).expect("scenario");
        let prefix: Vec<usize> = serde_json::from_value(job["prefix"].clone()).expect("prefix");
        let props = owned_props(&prop);
        let r = run_one(&sc, &prefix, &props);
        json!({
            "points": r.points,
            "findings": r.findings,
            "outcome": r.outcome,
            "steps": r.steps,
            "error": r.error,
            "schedule": r.schedule,
            "diverged": r.diverged,
        })
    });
}

fn owned_props(prop: &str) -> Vec<&'static str> {
    match prop {
        "C02" => vec!["C02"],
        "C03" => vec!["C03"],
        "C11" => vec!["C11"],
        "C06" => vec!["C06"],
        "C07" => vec!["C07"],
        "C05" => vec!["C05"],
        "C09" => vec!["C09"],
        _ => vec![],
    }
}

pub fn bound_for(prop: &str, tier: &str) -> usize {
    if let Some(b) = std::env::var("XSMC_BOUND").ok().and_then(|s| s.parse().ok()) {
        return b;
    }
    let thorough = common::tier_is_thorough(tier);
    match (prop, thorough) {
        (_, false) => 2,
        (_, true) => 3,
    }
}

pub fn run(prop: &str, tier: &str, report: &mut Report) {
    let t0 = Instant::now();
    let bound = bound_for(prop, tier);
    let cap_s: u64 = if common::tier_is_thorough(tier) { 1500 } else { 45 };
    let scs = scenarios(prop, tier);
    let extra = vec![prop.to_string()];
    let mut total_exec = 0u64;
    let mut total_points = 0u64;
    let mut total_steps = 0u64;
    let mut per_scenario = vec![];
    let mut samples = vec![];
    let mut capped = false;
    let mut all_outcomes = 0usize;
    // all scenarios advance together, generation by generation (generation = number of deviations)
    struct Job {
        sc: usize,
        prefix: Vec<usize>,
        cost: usize,
    }
    let mut divergences: Vec<String> = vec![];
    let mut watchdog_retries = 0u64;
    let mut frontier: Vec<Job> = (0..scs.len()).map(|i| Job { sc: i, prefix: vec![], cost: 0 }).collect();
    let mut outcomes: Vec<HashSet<String>> = vec![HashSet::new(); scs.len()];
    let mut execs: Vec<u64> = vec![0; scs.len()];
    let mut by_cost: Vec<BTreeMap<usize, u64>> = vec![BTreeMap::new(); scs.len()];
    let mut generation = 0;
    while !frontier.is_empty() {
        if t0.elapsed().as_secs() > cap_s {
            capped = true;
            break;
        }
        let mut results: Vec<Value> = Vec::with_capacity(frontier.len());
        for chunk in frontier.chunks(4000) {
            if t0.elapsed().as_secs() > cap_s {
                capped = true;
                break;
            }
            let jobs: Vec<Value> = chunk.iter().map(|j| json!({"scenario": scs[j.sc], "prefix": j.prefix})).collect();
            results.extend(common::pool_map("e2", &extra, common::ncpu(), jobs));
        }
        if capped {
            frontier.truncate(results.len());
        }
        let mut next = vec![];
        for (j, r) in frontier.iter().zip(results.iter()) {
            let sc = &scs[j.sc];
            // a watchdog hit (an actor that did not reach its next scheduling point in 20 s) is
            // first retried: the same prefix is executed again in a fresh worker
            let mut retried: Option<Value> = None;
            if r["error"].as_str().map(|e| e.starts_with("watchdog")).unwrap_or(false) {
                for _ in 0..2 {
                    watchdog_retries += 1;
                    let again = common::pool_map("e2", &extra, 1, vec![json!({"scenario": sc, "prefix": j.prefix})]);
                    let ok = !again[0]["error"].as_str().map(|e| e.starts_with("watchdog")).unwrap_or(false);
                    retried = Some(again[0].clone());
                    if ok {
                        break;
                    }
                }
            }
            let r = retried.as_ref().unwrap_or(r);
            if r.get("crashed").is_some() {
                eprintln!("HARNESS ERROR: worker crashed on scenario {} prefix {:?}: {}", sc.name, j.prefix, r);
                std::process::exit(2);
            }
            if let Some(e) = r["error"].as_str() {
                if e.starts_with("replay divergence") {
                    // the subject did not repeat its behaviour and this execution showed nothing:
                    // decided at the end (a violation witnessed by another execution stands)
                    divergences.push(format!("scenario {} prefix {:?}: {}", sc.name, j.prefix, e));
                    continue;
                }
                eprintln!("HARNESS ERROR: scenario {} prefix {:?}: {}", sc.name, j.prefix, e);
                std::process::exit(2);
            }
            total_exec += 1;
            execs[j.sc] += 1;
            *by_cost[j.sc].entry(j.cost).or_insert(0) += 1;
            let points: Vec<PointRec> = serde_json::from_value(r["points"].clone()).unwrap();
            total_points += points.len() as u64;
            total_steps += r["steps"].as_u64().unwrap_or(0);
            outcomes[j.sc].insert(r["outcome"].as_str().unwrap_or("").to_string());
            if samples.len() < 5 && (total_exec % 37 == 1) {
                samples.push(json!({"scenario": sc.name, "prefix": j.prefix, "schedule": r["schedule"], "outcome": r["outcome"]}));
            }
            for f in r["findings"].as_array().cloned().unwrap_or_default() {
                let kind = f["kind"].as_str().unwrap_or("?").to_string();
                report.add_violation(Violation {
                    property: prop.to_string(),
                    signature: format!("E2:{}:{}", sc.name, kind),
                    message: format!("scenario {} schedule {}: {}", sc.name, r["schedule"], f["msg"].as_str().unwrap_or("")),
                    replay: json!({"engine": "e2", "prop": prop, "scenario": sc, "prefix": j.prefix, "schedule": r["schedule"]}),
                });
            }
            if r["diverged"].as_bool() == Some(true) {
                continue;
            }
            // children: deviate at every point from len(prefix) on
            let mut pre_cost = j.cost;
            for (i, p) in points.iter().enumerate() {
                if i >= j.prefix.len() {
                    let dev_cost = if p.prev_enabled { 1 } else { 0 };
                    if pre_cost + dev_cost <= sc.bound.unwrap_or(bound) {
                        for alt in 1..p.enabled.len() {
                            let mut np: Vec<usize> = points[..i].iter().map(|q| q.chosen).collect();
                            np.push(alt);
                            next.push(Job { sc: j.sc, prefix: np, cost: pre_cost + dev_cost });
                        }
                    }
                }
                // cost of the choice actually taken at i (only non-zero inside the prefix)
                if p.chosen != 0 && p.prev_enabled {
                    if i >= j.prefix.len() {
                        pre_cost += 1;
                    }
                }
            }
        }
        generation += 1;
        if capped {
            break;
        }
        frontier = next;
        let _ = generation;
    }
    if !divergences.is_empty() {
        if report.violations.is_empty() {
            eprintln!("HARNESS ERROR: {} (and {} more): the subject is not deterministic under the controlled schedule and no execution violated the property", divergences[0], divergences.len() - 1);
            std::process::exit(2);
        }
        report.cov("nondeterministic_subject", json!({"executions_that_left_their_prefix_without_a_finding": divergences.len(), "first": divergences[0]}));
    }
    for (i, sc) in scs.iter().enumerate() {
        all_outcomes += outcomes[i].len();
        per_scenario.push(json!({"scenario": sc.name, "preemption_bound": sc.bound.unwrap_or(bound), "executions": execs[i], "by_preemptions": by_cost[i], "distinct_outcomes": outcomes[i].len()}));
    }
    if samples.is_empty() {
        samples.push(json!("none"));
    }
    report.cov("states", json!(total_points));
    report.cov("transitions", json!(total_steps));
    report.cov("traces_validated_against_impl", json!(total_exec));
    report.cov("executions", json!(total_exec));
    report.cov("preemption_bound_completed", json!(if capped { Value::Null } else { json!(bound) }));
    report.cov("time_cap_hit", json!(capped));
    report.cov("watchdog_retries", json!(watchdog_retries));
    report.cov("exhaustive", json!(!capped));
    if prop == "C02" {
        let mut frames = 0;
        for _ in 0..3 {
            let (fs2, n) = stress_c02();
            frames += n;
            for f in fs2 {
                report.add_violation(Violation {
                    property: prop.to_string(),
                    signature: format!("E2:stress:{}", f.kind),
                    message: f.msg,
                    replay: json!({"engine": "e2-stress"}),
                });
            }
        }
        let (fs3, n3) = script_appenders();
        for f in fs3 {
            report.add_violation(Violation {
                property: prop.to_string(),
                signature: format!("E5:scripts:{}", f.kind),
                message: f.msg,
                replay: json!({"engine": "e2-scripts"}),
            });
        }
        report.cov("supplementary_script_appenders", json!({"frames_delivered": n3, "note": "handler (buffered .append + return value), command (unbuffered .append + results) and generator output appended from their own threads while a client appends; follower order and last-id poller; OS schedule with a 60 ms window forced by the scripts"}));
        report.cov("supplementary_free_running_stress", json!({"runs": 3, "writers": 4, "frames_delivered": frames, "note": "hook-free sample of schedules, not the deciding step; sees reorderings inside one scheduling step"}));
    }
    report.cov("scenarios", json!(per_scenario));
    report.cov("distinct_outcomes", json!(all_outcomes));
    report.cov("samples", json!(samples));
    report.cov(
        "explanation",
        json!(format!(
            "stateless DFS over all schedules of the real threads/tasks of each scenario with at most {} preemptions (states = decision points visited, transitions = granted steps, every execution runs the real Store code to quiescence)",
            bound
        )),
    );
}

pub fn replay(v: &Value) -> i32 {
    let prop = v["prop"].as_str().unwrap().to_string();
    let sc: Scenario = serde_json::from_value(v["scenario"].clone()).expect("scenario");
    let prefix: Vec<usize> = serde_json::from_value(v["prefix"].clone()).expect("prefix");
    let props = owned_props(&prop);
    let r1 = run_one(&sc, &prefix, &props);
    let r2 = run_one(&sc, &prefix, &props);
    if r1.error.is_none() && r2.error.is_none() && !r1.findings.is_empty() && !r2.findings.is_empty() && (r1.diverged || r2.diverged) {
        println!("note: the subject does not repeat its behaviour under this schedule; both replays violate the property");
        for f in &r1.findings {
            println!("finding {}: {}", f.kind, f.msg);
        }
        return 1;
    }
    if r1.error.is_some() || r1.outcome != r2.outcome || r1.schedule != r2.schedule {
        eprintln!("HARNESS ERROR: replay not deterministic: {:?} / {} vs {}", r1.error, r1.outcome, r2.outcome);
        return 2;
    }
    println!("schedule: {}", r1.schedule.join(" "));
    println!("outcome: {}", r1.outcome);
    for f in &r1.findings {
        println!("finding {}: {}", f.kind, f.msg);
    }
    if r1.findings.is_empty() {
        0
    } else {
        1
    }
}

/// The script-level appenders of C02's quantifier: a handler (buffered `.append`, emitted when the
/// closure returns), a command (unbuffered `.append`) and a generator emit frames from their own
/// threads while a client appends; a follower and a last-id poller watch. The closure keeps
/// running for 60 ms after its `.append`, so the window between "the script emitted" and "the
/// frame is appended" is wide open on every run. Supplementary like the stress run: the
/// schedule is the OS's.
pub fn script_appenders() -> (Vec<Finding>, u64) {
    use crate::e5::{meta_str, Serve, World};
    use std::sync::atomic::{AtomicBool, Ordering};
    let mut findings = vec![];
    let w = World::start(Serve { handlers: true, generators: true, commands: true });
    let ctx = ZERO_CONTEXT;
    let reg = w.append_c("slow.register", ctx, Some("{run: {|frame| if $frame.topic != \"go\" { return }; \"n\" | .append slow.note; sleep 60ms; \"ret\"}}"), None);
    w.wait(|f| f.topic == "slow.registered" && meta_str(f, "handler_id") == Some(reg.id.to_string()), 20.0).expect("harness: handler");
    w.append_c("cmd.define", ctx, Some("{run: {|frame| \"c\" | .append cmd.note | ignore; sleep 60ms; \"r\"}}"), None);
    let stop = Arc::new(AtomicBool::new(false));
    let poller = {
        let store = w.store.clone();
        let stop = stop.clone();
        std::thread::spawn(move || {
            let mut last: Option<Scru128Id> = None;
            let mut got: Vec<Scru128Id> = vec![];
            loop {
                let done = stop.load(Ordering::SeqCst);
                let new: Vec<Scru128Id> = store.read_sync(last.as_ref(), None, None).map(|f| f.id).collect();
                if let Some(l) = new.last() {
                    last = Some(*l);
                }
                got.extend(new);
                if done {
                    break;
                }
                std::thread::sleep(Duration::from_millis(1));
            }
            got
        })
    };
    let mark = w.append_c("mark", ctx, None, None);
    let go = w.append_c("go", ctx, None, None);
    let call = w.append_c("cmd.call", ctx, None, None);
    let sp = w.append_c("gen.spawn", ctx, Some("[\"a\" \"b\" \"c\"] | each {|x| sleep 10ms; $x}"), None);
    for k in 0..30 {
        let _ = w.store.append(Frame::builder(format!("tick{}", k), ctx).build());
        std::thread::sleep(Duration::from_millis(4));
    }
    w.wait(|f| f.topic == "slow.out" && meta_str(f, "frame_id") == Some(go.id.to_string()), 20.0);
    w.wait(|f| f.topic == "cmd.complete" && meta_str(f, "frame_id") == Some(call.id.to_string()), 20.0);
    w.wait(|f| f.topic == "gen.stop" && meta_str(f, "source_id") == Some(sp.id.to_string()), 20.0);
    let fin = w.append_c("fin", ctx, None, None);
    w.sync_to(fin.id);
    stop.store(true, Ordering::SeqCst);
    let polled = poller.join().unwrap();
    let log: Vec<Frame> = w.snapshot();
    let seen: Vec<&Frame> = w.snapshot_ref_after(&log, mark.id);
    if let Some(p) = seen.windows(2).find(|p| p[1].id <= p[0].id) {
        findings.push(Finding { kind: "scripts.follow.order".into(), msg: format!("script appenders: a follower was sent {} ({}) after {} ({})", p[1].id, p[1].topic, p[0].id, p[0].topic) });
    }
    let want: Vec<Scru128Id> = w.store.read_sync(None, None, None).map(|f| f.id).collect();
    let polled_stored: Vec<Scru128Id> = polled.into_iter().collect();
    if polled_stored != want {
        let missing: Vec<String> = want.iter().filter(|x| !polled_stored.contains(x)).map(|x| x.to_string()).collect();
        findings.push(Finding { kind: "scripts.poller".into(), msg: format!("script appenders: a client polling with last-id collected {} frames, the stream holds {}; missed {:?}", polled_stored.len(), want.len(), missing) });
    }
    let n = seen.len() as u64;
    w.stop();
    (findings, n)
}

/// Supplementary, hook-free detector for C02 (NOT the deciding step: a free-running stress run is
/// a sample of schedules). It sees reorderings inside a step that the scheduling points cannot
/// separate. Any finding is a genuine execution of the real code.
pub fn stress_c02() -> (Vec<Finding>, u64) {
    use std::sync::atomic::{AtomicBool, Ordering};
    let mut findings = vec![];
    let dir = common::scratch_dir("e2s");
    let store = Store::new(dir.clone());
    let rt = tokio::runtime::Builder::new_multi_thread().worker_threads(2).enable_all().build().unwrap();
    let mut rx = rt.block_on(store.read(ReadOptions::builder().follow(FollowOption::On).tail(true).build()));
    let stop = Arc::new(AtomicBool::new(false));
    // the last-id poller
    let poller = {
        let store = store.clone();
        let stop = stop.clone();
        std::thread::spawn(move || {
            let mut last: Option<Scru128Id> = None;
            let mut got: Vec<Scru128Id> = vec![];
            loop {
                let done = stop.load(Ordering::SeqCst);
                let new: Vec<Scru128Id> = store.read_sync(last.as_ref(), None, None).map(|f| f.id).collect();
                if let Some(l) = new.last() {
                    last = Some(*l);
                }
                got.extend(new);
                if done {
                    break;
                }
            }
            got
        })
    };
    let writers: Vec<_> = (0..4)
        .map(|w| {
            let store = store.clone();
            std::thread::spawn(move || {
                for k in 0..120 {
                    let ttl = if (w + k) % 5 == 0 { Some(TTL::Ephemeral) } else { None };
                    let _ = store.append(Frame::builder(format!("w{}", w), ZERO_CONTEXT).maybe_ttl(ttl).build());
                }
            })
        })
        .collect();
    for w in writers {
        let _ = w.join();
    }
    let fin = store.append(Frame::builder("fin", ZERO_CONTEXT).build()).unwrap();
    stop.store(true, Ordering::SeqCst);
    let polled = poller.join().unwrap();
    let mut delivered: Vec<Scru128Id> = vec![];
    rt.block_on(async {
        while let Ok(Some(f)) = tokio::time::timeout(Duration::from_secs(20), rx.recv()).await {
            let id = f.id;
            delivered.push(id);
            if id == fin.id {
                break;
            }
        }
    });
    if let Some(w) = delivered.windows(2).find(|w| w[1] <= w[0]) {
        findings.push(Finding { kind: "stress.follow.order".into(), msg: format!("free-running stress: a live subscriber was sent {} after {} ({} frames)", w[1], w[0], delivered.len()) });
    }
    let want: Vec<Scru128Id> = store.read_sync(None, None, None).map(|f| f.id).collect();
    if polled != want {
        findings.push(Finding { kind: "stress.poller".into(), msg: format!("free-running stress: a last-id poller collected {} frames, the stream holds {}", polled.len(), want.len()) });
    }
    let n = delivered.len() as u64;
    drop(rx);
    rt.shutdown_background();
    common::close_store_async(store);
    let d = dir.clone();
    std::thread::spawn(move || {
        std::thread::sleep(Duration::from_millis(700));
        let _ = std::fs::remove_dir_all(d);
    });
    (findings, n)
}
