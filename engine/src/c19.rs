//! C19: command calls -- ordered results, exactly one terminal event, per-call isolation, latest
//! valid definition wins (per context), no second execution.
use std::collections::{BTreeMap, HashSet};
use std::time::Duration;

use scru128::Scru128Id;
use serde_json::{json, Value};

use xs::store::{Frame, TTL};

use crate::common::{self, Report, Violation};
use crate::e5::{meta_str, Serve, World};

pub struct F {
    pub kind: String,
    pub msg: String,
}

#[derive(serde::Serialize, serde::Deserialize, Clone, Debug)]
pub struct Program {
    /// index into `outputs()`
    pub out: usize,
    /// explicit `.append side --meta {u: 1}` inside the closure
    pub side_append: bool,
    /// 0 none, 1 eager runtime error (before any output)
    pub error: u8,
    /// 0 none, 1 suffix .res, 2 ttl head:2, 3 suffix .e + ttl ephemeral
    pub ret_opts: u8,
    /// 0 no module; 1 the definition loads a module and calls a pure function of it;
    /// 2 the explicit `.append` is done by a function exported from the module
    #[serde(default)]
    pub module: u8,
}

fn outputs() -> Vec<(&'static str, Vec<Value>)> {
    vec![
        ("", vec![]),
        ("7", vec![json!(7)]),
        ("\"x\"", vec![json!("x")]),
        ("[1]", vec![json!(1)]),
        ("[\"a\" 2.5]", vec![json!("a"), json!(2.5)]),
        ("[{a: 1} [1 2] true]", vec![json!({"a": 1}), json!([1, 2]), json!(true)]),
        ("1..3", vec![json!(1), json!(2), json!(3)]),
        ("[1 2 3] | each {|x| $x * 2}", vec![json!(2), json!(4), json!(6)]),
    ]
}

pub fn programs() -> Vec<Program> {
    let mut v = vec![];
    for out in 0..outputs().len() {
        for side in [false, true] {
            for error in 0..2u8 {
                for ro in 0..4u8 {
                    v.push(Program { out, side_append: side, error, ret_opts: ro, module: 0 });
                }
                // modules: a pure helper; the side append done inside a module function
                v.push(Program { out, side_append: side, error, ret_opts: 0, module: 1 });
                if side {
                    v.push(Program { out, side_append: side, error, ret_opts: 0, module: 2 });
                }
            }
        }
    }
    v
}

pub fn script(p: &Program) -> String {
    let mut body = String::new();
    if p.module == 1 {
        body.push_str("    let _k = (helper twice 21)\n");
    }
    if p.side_append && p.module == 2 {
        body.push_str("    helper emit\n");
    } else if p.side_append {
        body.push_str("    \"side\" | .append side --meta {u: 1} | ignore\n");
    }
    if p.error == 1 {
        body.push_str("    error make {msg: \"boom\"}\n");
    }
    body.push_str(&format!("    {}\n", outputs()[p.out].0));
    let ro = match p.ret_opts {
        0 => "",
        1 => "  return_options: {suffix: \".res\"}\n",
        2 => "  return_options: {ttl: \"head:2\"}\n",
        _ => "  return_options: {suffix: \".e\", ttl: \"ephemeral\"}\n",
    };
    let modules = if p.module > 0 {
        "  modules: {\n    helper: \"export def twice [x] { $x * 2 }\\nexport def emit [] { 'side' | .append side --meta {u: 1} | ignore }\"\n  }\n"
    } else {
        ""
    };
    format!("{{\n{}  run: {{|frame|\n{}  }}\n{}}}", modules, body, ro)
}

/// frames stamped with this call id, in stream order
fn stamped(log: &[Frame], call: &Scru128Id) -> Vec<Frame> {
    log.iter().filter(|f| meta_str(f, "frame_id") == Some(call.to_string())).cloned().collect()
}

fn wait_terminal(w: &World, name: &str, call: &Scru128Id) -> Option<Frame> {
    w.wait(|f| (f.topic == format!("{}.complete", name) || f.topic == format!("{}.error", name)) && meta_str(f, "frame_id") == Some(call.to_string()), 8.0)
}

pub fn run_program(p: &Program) -> (Vec<F>, String) {
    let mut fs = vec![];
    let w = World::start(Serve { commands: true, ..Default::default() });
    let ctx = w.ctx_a;
    let label = format!("{:?}", p);
    let def = w.append_c("cmd.define", ctx, Some(&script(p)), None);
    let call = w.append_c("cmd.call", ctx, None, None);
    let Some(term) = wait_terminal(&w, "cmd", &call.id) else {
        fs.push(F { kind: "c19.no_terminal".into(), msg: format!("{}: neither cmd.complete nor cmd.error for the call within 30 s :: {}", label, script(p)) });
        w.stop();
        return (fs, "hang".into());
    };
    std::thread::sleep(Duration::from_millis(30));
    let log = w.snapshot();
    let mine = stamped(&log, &call.id);
    let (suffix, ttl): (&str, Option<TTL>) = match p.ret_opts {
        0 => (".recv", None),
        1 => (".res", None),
        2 => (".recv", Some(TTL::Head(2))),
        _ => (".e", Some(TTL::Ephemeral)),
    };
    let recv_topic = format!("cmd{}", suffix);
    let terminals: Vec<&Frame> = mine.iter().filter(|f| f.topic == "cmd.complete" || f.topic == "cmd.error").collect();
    if terminals.len() != 1 {
        fs.push(F { kind: "c19.terminal_count".into(), msg: format!("{}: {} terminal events {:?}", label, terminals.len(), terminals.iter().map(|f| f.topic.clone()).collect::<Vec<_>>()) });
    }
    for f in &mine {
        if meta_str(f, "command_id") != Some(def.id.to_string()) {
            fs.push(F { kind: "c19.stamp".into(), msg: format!("{}: {:?} carries meta {:?}, expected command_id {}", label, f.topic, f.meta, def.id) });
        }
        if f.context_id != ctx {
            fs.push(F { kind: "c19.context".into(), msg: format!("{}: {:?} landed in context {}", label, f.topic, f.context_id) });
        }
    }
    let mut outcome = term.topic.clone();
    if p.error == 1 {
        if term.topic != "cmd.error" {
            fs.push(F { kind: "c19.error_missing".into(), msg: format!("{}: the closure fails but the terminal event is {:?}", label, term.topic) });
        } else if meta_str(&term, "error").map(|e| e.is_empty()).unwrap_or(true) {
            fs.push(F { kind: "c19.error_meta".into(), msg: format!("{}: error frame without error text {:?}", label, term.meta) });
        }
        if mine.iter().any(|f| f.topic == recv_topic) {
            fs.push(F { kind: "c19.error_with_results".into(), msg: format!("{}: results were emitted although the closure failed before producing any", label) });
        }
    } else {
        if term.topic != "cmd.complete" {
            fs.push(F { kind: "c19.unexpected_error".into(), msg: format!("{}: {:?} :: {}", label, term.meta, script(p)) });
        } else {
            let want = &outputs()[p.out].1;
            let recvs: Vec<&Frame> = mine.iter().filter(|f| f.topic == recv_topic).collect();
            let got: Vec<Option<String>> = recvs.iter().map(|f| w.content(f)).collect();
            let want_s: Vec<Option<String>> = want.iter().map(|v| Some(v.to_string())).collect();
            if got != want_s {
                fs.push(F { kind: "c19.results".into(), msg: format!("{}: results {:?}, expected {:?}", label, got, want_s) });
            }
            for f in &recvs {
                let t = f.ttl.clone().filter(|t| *t != TTL::Forever);
                if t != ttl {
                    fs.push(F { kind: "c19.ttl".into(), msg: format!("{}: result frame ttl {:?}, expected {:?}", label, f.ttl, ttl) });
                }
            }
            // every result precedes the terminal event
            if let Some(pos) = mine.iter().position(|f| f.topic == "cmd.complete") {
                if mine.iter().skip(pos + 1).any(|f| f.topic == recv_topic) {
                    fs.push(F { kind: "c19.order".into(), msg: format!("{}: a result after cmd.complete", label) });
                }
            }
            if term.hash.is_some() {
                fs.push(F { kind: "c19.complete_hash".into(), msg: format!("{}: complete carries a hash", label) });
            }
            outcome = format!("complete:{}", recvs.len());
        }
        if p.side_append {
            let side: Vec<&Frame> = mine.iter().filter(|f| f.topic == "side").collect();
            if side.len() != 1 || w.content(side[0]).as_deref() != Some("side") || side[0].meta.as_ref().and_then(|m| m.get("u")) != Some(&json!(1)) {
                fs.push(F { kind: "c19.side_append".into(), msg: format!("{}: explicit .append produced {} stamped frames", label, side.len()) });
            }
        }
    }
    w.stop();
    (fs, outcome)
}

// ---- histories -------------------------------------------------------------------------

#[derive(serde::Serialize, serde::Deserialize, Clone, Debug, PartialEq)]
pub enum Ev {
    Define { name: usize, ctx: usize },
    /// a definition whose script is byte-identical to the current one of that (context, name):
    /// it is the current definition from then on (its id stamps the results)
    DefineSame { name: usize, ctx: usize },
    DefineInvalid { name: usize, ctx: usize },
    Call { name: usize, ctx: usize },
    /// two calls appended back to back (they overlap)
    Call2 { name: usize, ctx: usize },
    /// the command server is stopped and started again on the same store
    Restart,
    /// restart, then a call (one step, so that depth-3 histories reach "define, redefine, restart, call")
    RestartCall { name: usize, ctx: usize },
}

fn cname(i: usize) -> &'static str {
    ["ca", "cb"][i]
}

pub fn run_history(h: &[Ev]) -> (Vec<F>, String) {
    let mut fs = vec![];
    let w = World::start(Serve { commands: true, ..Default::default() });
    let ctxs = [w.ctx_a, w.ctx_b];
    let mut defs: BTreeMap<(usize, usize), (Scru128Id, String)> = BTreeMap::new();
    let mut version = 0;
    let mut outcome = vec![];
    let label = format!("{:?}", h);
    let mut calls: Vec<(Scru128Id, Option<(Scru128Id, String)>, usize, usize)> = vec![];
    for (step, ev) in h.iter().enumerate() {
        match ev {
            Ev::Define { name, ctx } | Ev::DefineSame { name, ctx } => {
                let tag = match (ev, defs.get(&(*ctx, *name))) {
                    (Ev::DefineSame { .. }, Some((_, t))) => t.clone(),
                    _ => {
                        version += 1;
                        format!("v{}", version)
                    }
                };
                // 3 results tied to the call, a per-call counter (no state may leak between calls),
                // and a context-scoped read (.cat sees only the definition's context)
                let src = format!(
                    "{{\n  run: {{|frame|\n    let n = ($env.n? | default 0)\n    $env.n = $n + 1\n    [1 2 3] | each {{|x| sleep 2ms; $\"{}:($frame.id):($n):($x):(.cat | where context_id != $frame.context_id | length)\" }}\n  }}\n}}",
                    tag
                );
                let f = w.append_c(&format!("{}.define", cname(*name)), ctxs[*ctx], Some(&src), None);
                defs.insert((*ctx, *name), (f.id, tag));
            }
            Ev::DefineInvalid { name, ctx } => {
                let f = w.append_c(&format!("{}.define", cname(*name)), ctxs[*ctx], Some("{run: {|frame| "), None);
                let e = w.wait(|x| x.topic == format!("{}.error", cname(*name)) && meta_str(x, "command_id") == Some(f.id.to_string()), 20.0);
                match e {
                    None => fs.push(F { kind: "c19.invalid_define.silent".into(), msg: format!("{} step {}: invalid definition was not reported", label, step) }),
                    Some(e) => {
                        if e.context_id != ctxs[*ctx] || meta_str(&e, "error").map(|x| x.is_empty()).unwrap_or(true) {
                            fs.push(F { kind: "c19.invalid_define.meta".into(), msg: format!("{} step {}: {:?} ctx {}", label, step, e.meta, e.context_id) });
                        }
                    }
                }
            }
            Ev::Restart | Ev::RestartCall { .. } => {
                // let the calls issued so far finish: a restart in the middle of a call is C17's domain
                for (cid, def, name, _ctx) in &calls {
                    if def.is_some() {
                        wait_terminal(&w, cname(*name), cid);
                    }
                }
                w.restart_commands();
                if let Ev::RestartCall { name, ctx } = ev {
                    let c = w.append_c(&format!("{}.call", cname(*name)), ctxs[*ctx], None, None);
                    calls.push((c.id, defs.get(&(*ctx, *name)).cloned(), *name, *ctx));
                }
            }
            Ev::Call { name, ctx } | Ev::Call2 { name, ctx } => {
                // the serve loop handles frames in order: a define appended before is registered
                let n = if matches!(ev, Ev::Call2 { .. }) { 2 } else { 1 };
                for _ in 0..n {
                    let c = w.append_c(&format!("{}.call", cname(*name)), ctxs[*ctx], None, None);
                    calls.push((c.id, defs.get(&(*ctx, *name)).cloned(), *name, *ctx));
                }
            }
        }
    }
    // wait for every expected terminal event, then a grace period for what must not come
    for (cid, def, name, _ctx) in &calls {
        if def.is_some() && wait_terminal(&w, cname(*name), cid).is_none() {
            fs.push(F { kind: "c19.no_terminal".into(), msg: format!("{}: call {} of a defined command got no terminal event", label, cid) });
        }
    }
    std::thread::sleep(Duration::from_millis(60));
    let log = w.snapshot();
    for (cid, def, name, ctx) in &calls {
        let mine = stamped(&log, cid);
        match def {
            None => {
                if !mine.is_empty() {
                    fs.push(F {
                        kind: "c19.undefined_executed".into(),
                        msg: format!("{}: call of {} in context {} where it is not defined produced {:?}", label, cname(*name), ctx, mine.iter().map(|f| (f.topic.clone(), f.meta.clone())).collect::<Vec<_>>()),
                    });
                }
                outcome.push("undef".to_string());
            }
            Some((did, tag)) => {
                let n = cname(*name);
                let topics: Vec<String> = mine.iter().map(|f| f.topic.clone()).collect();
                let want = vec![format!("{}.recv", n), format!("{}.recv", n), format!("{}.recv", n), format!("{}.complete", n)];
                if topics != want {
                    fs.push(F { kind: "c19.sequence".into(), msg: format!("{}: call {} produced {:?}, expected {:?}", label, cid, topics, want) });
                }
                for (i, f) in mine.iter().enumerate() {
                    if meta_str(f, "command_id") != Some(did.to_string()) {
                        fs.push(F { kind: "c19.definition".into(), msg: format!("{}: call {} in context {} was served by definition {:?}, the latest valid one there is {}", label, cid, ctx, meta_str(f, "command_id"), did) });
                        break;
                    }
                    if f.context_id != w_ctx(&w, *ctx) {
                        fs.push(F { kind: "c19.context".into(), msg: format!("{}: result of call {} landed in context {}", label, cid, f.context_id) });
                    }
                    if f.topic.ends_with(".recv") {
                        let want_c = format!("\"{}:{}:0:{}:0\"", tag, cid, i + 1);
                        let got = w.content(f);
                        if got.as_deref() != Some(want_c.as_str()) {
                            let kind = if got.as_deref().map(|g| g.contains(&format!(":{}:", cid))).unwrap_or(false) { "c19.call_state" } else { "c19.mixed_results" };
                            fs.push(F { kind: kind.into(), msg: format!("{}: result #{} of call {} is {:?}, expected {}", label, i + 1, cid, got, want_c) });
                        }
                    }
                }
                outcome.push(format!("{}:{}", tag, topics.len()));
            }
        }
    }
    w.stop();
    (fs, outcome.join(","))
}

fn w_ctx(w: &World, i: usize) -> Scru128Id {
    [w.ctx_a, w.ctx_b][i]
}

pub fn histories(depth: usize, thorough: bool) -> Vec<Vec<Ev>> {
    let mut alphabet = vec![];
    for name in 0..2 {
        for ctx in 0..2 {
            if !thorough && name == 1 && ctx == 1 {
                continue;
            }
            alphabet.push(Ev::Define { name, ctx });
            alphabet.push(Ev::Call { name, ctx });
            if name == 0 {
                alphabet.push(Ev::Call2 { name, ctx });
            }
            if thorough || (name == 0 && ctx == 0) {
                alphabet.push(Ev::DefineInvalid { name, ctx });
                alphabet.push(Ev::DefineSame { name, ctx });
            }
        }
    }
    alphabet.push(Ev::Restart);
    alphabet.push(Ev::RestartCall { name: 0, ctx: 0 });
    if thorough {
        alphabet.push(Ev::RestartCall { name: 0, ctx: 1 });
    }
    let mut out = vec![];
    let mut level: Vec<Vec<Ev>> = vec![vec![]];
    for _ in 0..depth {
        let mut next = vec![];
        for h in &level {
            for e in &alphabet {
                if h.is_empty() && matches!(e, Ev::Call { .. } | Ev::Call2 { .. } | Ev::Restart | Ev::RestartCall { .. }) {
                    continue;
                }
                if matches!(e, Ev::Restart) && matches!(h.last(), Some(Ev::Restart)) {
                    continue;
                }
                let mut n = h.clone();
                n.push(e.clone());
                next.push(n);
            }
        }
        // only histories that end with a call observe anything new (a trailing restart is observed
        // through the no-replay check: nothing may be executed twice)
        out.extend(next.iter().filter(|h| matches!(h.last(), Some(Ev::Call { .. }) | Some(Ev::Call2 { .. }) | Some(Ev::DefineInvalid { .. }) | Some(Ev::Restart) | Some(Ev::RestartCall { .. }))).cloned());
        level = next;
    }
    out
}

/// A call that arrives while the command server is still replaying its log at start-up: it was
/// appended after the definition, so it is served (`slow_ms`: how long the replayed definition
/// takes to compile; `fillers`: frames between the definition and the end of the log; `delay_ms`:
/// when the call is appended after the restart began).
pub fn run_replay_window(slow_ms: u64, fillers: usize, delay_ms: u64) -> (Vec<F>, String) {
    let mut fs = vec![];
    let w = World::start(Serve { commands: true, ..Default::default() });
    let ctx = w.ctx_a;
    let label = format!("call {} ms into a restart whose replay holds a definition taking {} ms and {} later frames", delay_ms, slow_ms, fillers);
    let def = w.append_c("slow.define", ctx, Some(&format!("sleep {}ms\n{{run: {{|frame| \"pong\"}}}}", slow_ms)), None);
    for k in 0..fillers {
        w.append_c(&format!("filler{}", k % 3), ctx, None, None);
    }
    let c0 = w.append_c("slow.call", ctx, None, None);
    if wait_terminal(&w, "slow", &c0.id).is_none() {
        fs.push(F { kind: "c19.harness".into(), msg: format!("{}: the control call before the restart was not served", label) });
        w.stop();
        return (fs, "harness".into());
    }
    // restart of the command server, without waiting for it to come up
    if let Some(h) = w.commands_task.lock().unwrap().take() {
        h.abort();
        let _ = w.rt.block_on(h);
    }
    // the window starts when the new server has subscribed (a call appended before that is
    // history for it and by design not executed): watch for its `read.sub`
    struct SubWatch(std::sync::atomic::AtomicUsize);
    impl xs::verif::Sched for SubWatch {
        fn point(&self, p: &xs::verif::Point<'_>) {
            // (the subscription is taken right after this point returns)
            if p.op == "read.lock" {
                self.0.fetch_add(1, std::sync::atomic::Ordering::SeqCst);
            }
        }
        fn spawned(&self, _who: xs::verif::Who) {}
        fn finished(&self, _who: xs::verif::Who) {}
    }
    let watch = std::sync::Arc::new(SubWatch(std::sync::atomic::AtomicUsize::new(0)));
    let sched: std::sync::Arc<dyn xs::verif::Sched> = watch.clone();
    w.store.verif_hooks().install(Some(sched));
    let (s, e) = (w.store.clone(), xs::nu::Engine::new().expect("nu engine"));
    let h = w.rt.spawn(async move {
        let _ = xs::commands::serve(s, e).await;
    });
    *w.commands_task.lock().unwrap() = Some(h);
    let t0 = std::time::Instant::now();
    while watch.0.load(std::sync::atomic::Ordering::SeqCst) == 0 {
        if t0.elapsed() > Duration::from_secs(20) {
            fs.push(F { kind: "c19.harness".into(), msg: format!("{}: the restarted command server never subscribed", label) });
            w.store.verif_hooks().install(None);
            w.stop();
            return (fs, "harness".into());
        }
        std::thread::sleep(Duration::from_millis(1));
    }
    w.store.verif_hooks().install(None);
    std::thread::sleep(Duration::from_millis(5 + delay_ms));
    let c1 = w.append_c("slow.call", ctx, None, None);
    match w.wait(|f| (f.topic == "slow.complete" || f.topic == "slow.error") && meta_str(f, "frame_id") == Some(c1.id.to_string()), 15.0) {
        None => fs.push(F { kind: "c19.no_terminal".into(), msg: format!("{}: the call got no terminal event (it arrived after the definition and was never served)", label) }),
        Some(t) => {
            if t.topic != "slow.complete" || meta_str(&t, "command_id") != Some(def.id.to_string()) {
                fs.push(F { kind: "c19.stamp".into(), msg: format!("{}: terminal event {:?} {:?}", label, t.topic, t.meta) });
            }
        }
    }
    // the call from before the restart is not executed again
    std::thread::sleep(Duration::from_millis(60));
    let n0 = stamped(&w.snapshot(), &c0.id).iter().filter(|f| f.topic == "slow.complete").count();
    if n0 != 1 {
        fs.push(F { kind: "c19.replayed_call".into(), msg: format!("{}: the call from before the restart has {} complete events", label, n0) });
    }
    w.stop();
    (fs, "window".into())
}

pub fn worker() {
    common::worker_loop(move |job| {
        if let Some(wv) = job.get("replay_window") {
            let (fs, outcome) = run_replay_window(wv[0].as_u64().unwrap(), wv[1].as_u64().unwrap() as usize, wv[2].as_u64().unwrap());
            return json!({"findings": fs.iter().map(|f| json!({"kind": f.kind, "msg": f.msg})).collect::<Vec<_>>(), "outcome": outcome});
        }
        let (fs, outcome) = if job.get("program").is_some() {
            let p: Program = serde_json::from_value(job["program"].clone()).unwrap();
            run_program(&p)
        } else {
            let h: Vec<Ev> = serde_json::from_value(job["history"].clone()).unwrap();
            run_history(&h)
        };
        json!({"findings": fs.iter().map(|f| json!({"kind": f.kind, "msg": f.msg})).collect::<Vec<_>>(), "outcome": outcome})
    });
}

pub fn run(tier: &str, report: &mut Report) {
    let thorough = common::tier_is_thorough(tier);
    let progs = programs();
    let hs = histories(if thorough { 4 } else { 3 }, thorough);
    let mut jobs: Vec<Value> = progs.iter().map(|p| json!({"program": p})).collect();
    jobs.extend(hs.iter().map(|h| json!({"history": h})));
    // calls arriving inside the replay window of a restart
    for (slow, fillers, delay) in [(300u64, 0usize, 100u64), (300, 3, 30), (150, 120, 60), (0, 150, 0)] {
        jobs.push(json!({"replay_window": [slow, fillers, delay]}));
    }
    let results = common::pool_map("c19", &[], common::ncpu(), jobs.clone());
    let mut outcomes: HashSet<String> = HashSet::new();
    for (j, r) in jobs.iter().zip(results.iter()) {
        if r.get("crashed").is_some() {
            eprintln!("HARNESS ERROR: worker crashed on {}: {}", j, r);
            std::process::exit(2);
        }
        outcomes.insert(r["outcome"].as_str().unwrap_or("").to_string());
        for f in r["findings"].as_array().cloned().unwrap_or_default() {
            report.add_violation(Violation {
                property: "C19".into(),
                signature: format!("E5:{}:{}", if j.get("program").is_some() { "program" } else if j.get("replay_window").is_some() { "window" } else { "history" }, f["kind"].as_str().unwrap_or("")),
                message: f["msg"].as_str().unwrap_or("").to_string(),
                replay: json!({"engine": "c19", "job": j}),
            });
        }
    }
    let steps: u64 = hs.iter().map(|h| h.len() as u64).sum::<u64>() + progs.len() as u64 * 2;
    report.cov("states", json!(jobs.len()));
    report.cov("transitions", json!(steps));
    report.cov("traces_validated_against_impl", json!(jobs.len()));
    report.cov("programs", json!(progs.len()));
    report.cov("histories", json!(hs.len()));
    report.cov("distinct_outcomes", json!(outcomes.len()));
    report.cov("exhaustive", json!(true));
    report.cov("samples", json!([script(&progs[progs.len() / 3]), format!("{:?}", hs.get(hs.len() / 2))]));
    report.cov("explanation", json!("(a) every command script of {8 output shapes: nothing, scalar, lists of 1-3 values of mixed types, range, lazy stream} x {explicit .append with colliding meta} x {eager runtime error} x {return_options none/suffix/ttl/ephemeral}: one call each, per-call oracle; (b) every history of define / invalid define / call / two overlapping calls / restart of the command server over 2 names x 2 contexts up to the depth that ends in an observation: each call is served by the latest valid definition of its own context exactly once, results carry the call's id in their content (no mixing), a per-call env counter must read 0 (no leak), calls in a context without a definition produce nothing; (c) calls appended inside the replay window of a restart of the command server (a replayed definition that takes 0-300 ms to compile, 0-150 later frames, call 0-100 ms after the restart began) are served, the call from before the restart is not executed again"));
}

pub fn replay(v: &Value) -> i32 {
    let j = &v["job"];
    let (fs, outcome) = if let Some(wv) = j.get("replay_window") {
        run_replay_window(wv[0].as_u64().unwrap(), wv[1].as_u64().unwrap() as usize, wv[2].as_u64().unwrap())
    } else if j.get("program").is_some() {
        let p: Program = serde_json::from_value(j["program"].clone()).unwrap();
        println!("{}", script(&p));
        run_program(&p)
    } else {
        let h: Vec<Ev> = serde_json::from_value(j["history"].clone()).unwrap();
        run_history(&h)
    };
    println!("outcome {}", outcome);
    for f in &fs {
        println!("finding {}: {}", f.kind, f.msg);
    }
    if fs.is_empty() {
        0
    } else {
        1
    }
}
