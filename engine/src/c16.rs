//! C16: (a) the start-up race of a handler -- spawner announce vs task start/subscribe vs a client
//! that appends as soon as `.registered` is visible -- all interleavings under the controlled
//! scheduler; (b) lifecycle histories (register / re-register / unregister / failing trigger /
//! invalid script) over 2 names x 2 contexts against a reference model.
use std::collections::{BTreeMap, HashSet};
use std::sync::Arc;
use std::time::Duration;

use scru128::Scru128Id;
use serde_json::{json, Value};

use xs::store::Frame;
use xs::verif::Who;

use crate::common::{self, Report, Violation};
use crate::e5::{is_boot, meta_str, Serve, World};
use crate::sched::{label, Ctl, ExtGuard};

pub struct F {
    pub kind: String,
    pub msg: String,
}

#[derive(serde::Serialize, serde::Deserialize, Clone, Debug)]
pub struct PointRec {
    pub enabled: Vec<String>,
    pub chosen: usize,
}

fn handler_script(resume: &str) -> String {
    let r = match resume {
        "tail" => "".to_string(),
        "head" => "  resume_from: \"head\"\n".to_string(),
        other => format!("  resume_from: \"{}\"\n", other),
    };
    format!("{{\n{}  run: {{|frame| if ($frame.topic | str starts-with \"h.\") {{ return }}; $frame.topic }}\n}}", r)
}

/// One schedule of the start-up race.
pub fn run_race(resume: &str, prefix: &[usize]) -> (Vec<PointRec>, Vec<F>, String, Option<String>) {
    let mut fs = vec![];
    let w = World::start(Serve { handlers: true, ..Default::default() });
    let ctx = w.ctx_a;
    let pre = w.append_c("before", ctx, None, None);
    let ctl = Ctl::new(&["hspawn.announce", "htask.start", "c.wait", "c.append"]);
    ctl.set_auto_kinds(&["hspawn"]);
    let sched: Arc<dyn xs::verif::Sched> = ctl.clone();
    w.store.verif_hooks().install(Some(sched.clone()));
    let resume_s = if resume == "after" { pre.id.to_string() } else { resume.to_string() };
    let reg = w.append_c("h.register", ctx, Some(&handler_script(&resume_s)), None);
    // the client: appends its trigger as soon as `.registered` is visible
    let cwho = Who::new("c", 1);
    sched.spawned(cwho);
    let trigger_id: Arc<std::sync::Mutex<Option<Scru128Id>>> = Arc::new(std::sync::Mutex::new(None));
    let th = {
        let ctl2 = ctl.clone();
        let store = w.store.clone();
        let tid = trigger_id.clone();
        let regid = reg.id.to_string();
        std::thread::spawn(move || {
            let _g = ExtGuard { ctl: ctl2.clone(), who: cwho };
            let st = store.clone();
            ctl2.ext_point(cwho, "c.wait", &|| st.read_sync(None, None, Some(ctx)).any(|f| f.topic == "h.registered" && meta_str(&f, "handler_id").as_deref() == Some(regid.as_str())));
            ctl2.ext_point(cwho, "c.append", &|| true);
            if ctl2.is_free_run() {
                return;
            }
            let f = store.append(Frame::builder("trigger", ctx).build()).unwrap();
            *tid.lock().unwrap() = Some(f.id);
        })
    };
    let mut error = None;
    if !ctl.await_kind("hspawn", Duration::from_secs(20)) {
        error = Some("spawner never reached its announce point".to_string());
    }
    let mut points = vec![];
    let mut sched_names = vec![];
    let mut last: Option<Who> = None;
    while error.is_none() {
        let parked = match ctl.settle(Duration::from_secs(20)) {
            Ok(p) => p,
            Err(e) => {
                error = Some(format!("{:?} {:?}", e, ctl.statuses()));
                break;
            }
        };
        let mut cands: Vec<(Who, &'static str)> = parked.iter().filter(|(_, _, en, _)| *en).map(|(w, op, _, _)| (*w, *op)).collect();
        if cands.is_empty() {
            break;
        }
        if let Some(l) = last {
            if let Some(pos) = cands.iter().position(|(w, _)| *w == l) {
                let c = cands.remove(pos);
                cands.insert(0, c);
            }
        }
        let i = points.len();
        let choice = if i < prefix.len() { prefix[i] } else { 0 };
        if choice >= cands.len() {
            error = Some(format!("replay divergence at {}: {:?}", i, cands.iter().map(|(w, op)| format!("{}@{}", label(w), op)).collect::<Vec<_>>()));
            break;
        }
        points.push(PointRec { enabled: cands.iter().map(|(w, op)| format!("{}@{}", label(w), op)).collect(), chosen: choice });
        sched_names.push(format!("{}@{}", label(&cands[choice].0), cands[choice].1));
        last = Some(cands[choice].0);
        ctl.grant(cands[choice].0);
    }
    ctl.release_all();
    let _ = th.join();
    w.store.verif_hooks().install(None);
    let mut outcome = String::new();
    if error.is_none() {
        let tid = *trigger_id.lock().unwrap();
        match tid {
            None => fs.push(F { kind: "c16.race.client".into(), msg: "the client never saw h.registered".into() }),
            Some(tid) => {
                // flush: the handler answers in order, so the answer to `flush` proves the trigger was handled or skipped
                let flush = w.append_c("flush", ctx, None, None);
                let ans = w.wait(|f| f.topic == "h.out" && meta_str(f, "frame_id") == Some(flush.id.to_string()), 20.0);
                if ans.is_none() {
                    fs.push(F { kind: "c16.race.dead".into(), msg: format!("schedule {:?}: the registered handler never answered a later frame", sched_names) });
                }
                let outs: Vec<Frame> = w.snapshot().into_iter().filter(|f| f.topic == "h.out" && meta_str(f, "frame_id") == Some(tid.to_string())).collect();
                outcome = format!("trigger:{}", outs.len());
                if outs.len() != 1 {
                    fs.push(F {
                        kind: "c16.race.missed".into(),
                        msg: format!("resume {} schedule {:?}: the trigger appended after h.registered was visible was processed {} times", resume, sched_names, outs.len()),
                    });
                }
            }
        }
    }
    w.stop();
    (points, fs, format!("{}|{}", sched_names.join(","), outcome), error)
}

// ---- lifecycle histories ---------------------------------------------------------------

#[derive(serde::Serialize, serde::Deserialize, Clone, Debug, PartialEq)]
pub enum Ev {
    Register { name: usize, ctx: usize },
    RegisterInvalid { name: usize, ctx: usize },
    Unregister { name: usize, ctx: usize },
    TriggerOk { ctx: usize },
    TriggerFail { ctx: usize },
    /// client unregister that names the instance in its meta (the form the start-up compaction honours)
    UnregisterMeta { name: usize, ctx: usize },
    /// the closure itself appends `<name>.unregister` (stamped with its own handler id)
    SelfRetire { ctx: usize },
}

fn names() -> [&'static str; 2] {
    ["ha", "hb"]
}

fn lifecycle_script(name: &str) -> String {
    // the second name answers through an explicit append and configures a non-default TTL for
    // its return values: lifecycle announcements must not depend on output options
    if name == names()[1] {
        return format!(
            "{{\n  return_options: {{ttl: \"ephemeral\"}}\n  run: {{|frame|\n    if $frame.topic == \"boom\" {{ error make {{msg: \"boom\"}} }}\n    if $frame.topic == \"retire\" {{ null | .append {}.unregister; return }}\n    if $frame.topic != \"ping\" {{ return }}\n    \"{}\" | .append {}.out\n    null\n  }}\n}}",
            name, name, name
        );
    }
    format!(
        "{{\n  run: {{|frame|\n    if $frame.topic == \"boom\" {{ error make {{msg: \"boom\"}} }}\n    if $frame.topic == \"retire\" {{ null | .append {}.unregister; return }}\n    if $frame.topic != \"ping\" {{ return }}\n    \"{}\"\n  }}\n}}",
        name, name
    )
}

pub fn run_history(h: &[Ev]) -> (Vec<F>, String) {
    let mut fs = vec![];
    let w = World::start(Serve { handlers: true, ..Default::default() });
    let ctxs = [w.ctx_a, w.ctx_b];
    // model: (ctx, name) -> active handler id
    let mut active: BTreeMap<(usize, usize), Scru128Id> = BTreeMap::new();
    let mut stopped: Vec<Scru128Id> = vec![];
    let mut outcome = vec![];
    let label = format!("{:?}", h);
    for (step, ev) in h.iter().enumerate() {
        let mark = w.snapshot().len();
        match ev {
            Ev::Register { name, ctx } | Ev::RegisterInvalid { name, ctx } => {
                let invalid = matches!(ev, Ev::RegisterInvalid { .. });
                let src = if invalid { "{run: {|a, b| 1}".to_string() } else { lifecycle_script(names()[*name]) };
                let f = w.append_c(&format!("{}.register", names()[*name]), ctxs[*ctx], Some(&src), None);
                let old = active.remove(&(*ctx, *name));
                if let Some(old) = old {
                    // the previous instance announces its stop, naming the new register frame
                    let u = w.wait(|x| x.topic == format!("{}.unregistered", names()[*name]) && meta_str(x, "handler_id") == Some(old.to_string()), 20.0);
                    match u {
                        None => fs.push(F { kind: "c16.replace.no_unregistered".into(), msg: format!("{} step {}: the replaced instance never announced its stop", label, step) }),
                        Some(u) => {
                            if meta_str(&u, "frame_id") != Some(f.id.to_string()) || u.context_id != ctxs[*ctx] {
                                fs.push(F { kind: "c16.unregistered.meta".into(), msg: format!("{} step {}: unregistered frame {:?} ctx {}", label, step, u.meta, u.context_id) });
                            }
                        }
                    }
                    stopped.push(old);
                }
                if invalid {
                    let u = w.wait(|x| x.topic == format!("{}.unregistered", names()[*name]) && meta_str(x, "handler_id") == Some(f.id.to_string()), 20.0);
                    match u {
                        None => fs.push(F { kind: "c16.invalid.silent".into(), msg: format!("{} step {}: an invalid script was not reported by an unregistered frame", label, step) }),
                        Some(u) => {
                            if meta_str(&u, "error").map(|e| e.is_empty()).unwrap_or(true) {
                                fs.push(F { kind: "c16.unregistered.meta".into(), msg: format!("{} step {}: no error on {:?}", label, step, u.meta) });
                            }
                        }
                    }
                    stopped.push(f.id);
                } else {
                    let r = w.wait(|x| x.topic == format!("{}.registered", names()[*name]) && meta_str(x, "handler_id") == Some(f.id.to_string()), 20.0);
                    if r.is_none() {
                        fs.push(F { kind: "c16.register.silent".into(), msg: format!("{} step {}: no registered frame", label, step) });
                    }
                    active.insert((*ctx, *name), f.id);
                }
            }
            Ev::Unregister { name, ctx } => {
                let f = w.append_c(&format!("{}.unregister", names()[*name]), ctxs[*ctx], None, None);
                if let Some(old) = active.remove(&(*ctx, *name)) {
                    let u = w.wait(|x| x.topic == format!("{}.unregistered", names()[*name]) && meta_str(x, "handler_id") == Some(old.to_string()) && meta_str(x, "frame_id") == Some(f.id.to_string()), 20.0);
                    if u.is_none() {
                        fs.push(F { kind: "c16.unregister.silent".into(), msg: format!("{} step {}: unregister was not announced", label, step) });
                    }
                    stopped.push(old);
                }
            }
            Ev::TriggerFail { ctx } => {
                let f = w.append_c("boom", ctxs[*ctx], None, None);
                let victims: Vec<((usize, usize), Scru128Id)> = active.iter().filter(|(k, _)| k.0 == *ctx).map(|(k, v)| (*k, *v)).collect();
                for (k, id) in victims {
                    let u = w.wait(|x| x.topic == format!("{}.unregistered", names()[k.1]) && meta_str(x, "handler_id") == Some(id.to_string()), 20.0);
                    match u {
                        None => fs.push(F { kind: "c16.error.silent".into(), msg: format!("{} step {}: a failing closure was not announced", label, step) }),
                        Some(u) => {
                            if meta_str(&u, "frame_id") != Some(f.id.to_string()) || meta_str(&u, "error").map(|e| e.is_empty()).unwrap_or(true) {
                                fs.push(F { kind: "c16.unregistered.meta".into(), msg: format!("{} step {}: {:?}", label, step, u.meta) });
                            }
                        }
                    }
                    active.remove(&k);
                    stopped.push(id);
                }
            }
            Ev::TriggerOk { .. } => {}
            Ev::UnregisterMeta { name, ctx } => {
                if let Some(old) = active.remove(&(*ctx, *name)) {
                    let f = w.append_c(&format!("{}.unregister", names()[*name]), ctxs[*ctx], None, Some(json!({"handler_id": old.to_string()})));
                    let u = w.wait(|x| x.topic == format!("{}.unregistered", names()[*name]) && meta_str(x, "handler_id") == Some(old.to_string()) && meta_str(x, "frame_id") == Some(f.id.to_string()), 20.0);
                    if u.is_none() {
                        fs.push(F { kind: "c16.unregister.silent".into(), msg: format!("{} step {}: an unregister naming the instance in its meta was not announced", label, step) });
                    }
                    stopped.push(old);
                }
            }
            Ev::SelfRetire { ctx } => {
                w.append_c("retire", ctxs[*ctx], None, None);
                let victims: Vec<((usize, usize), Scru128Id)> = active.iter().filter(|(k, _)| k.0 == *ctx).map(|(k, v)| (*k, *v)).collect();
                for (k, id) in victims {
                    let u = w.wait(|x| x.topic == format!("{}.unregistered", names()[k.1]) && meta_str(x, "handler_id") == Some(id.to_string()), 20.0);
                    if u.is_none() {
                        fs.push(F { kind: "c16.selfretire.silent".into(), msg: format!("{} step {}: a handler that appended its own unregister was not stopped / not announced", label, step) });
                    }
                    active.remove(&k);
                    stopped.push(id);
                }
            }
        }
        // probe every context: exactly the active instances answer
        for (ci, c) in ctxs.iter().enumerate() {
            if !matches!(ev, Ev::TriggerOk { ctx } if *ctx == ci) && step + 1 != h.len() {
                continue;
            }
            let ping = w.append_c("ping", *c, None, None);
            let expect: Vec<((usize, usize), Scru128Id)> = active.iter().filter(|(k, _)| k.0 == ci).map(|(k, v)| (*k, *v)).collect();
            for (k, id) in &expect {
                let a = w.wait(|x| x.topic == format!("{}.out", names()[k.1]) && meta_str(x, "frame_id") == Some(ping.id.to_string()) && meta_str(x, "handler_id") == Some(id.to_string()), 20.0);
                if a.is_none() {
                    fs.push(F { kind: "c16.active.silent".into(), msg: format!("{} step {}: active handler {}/{} did not process a later frame of its context", label, step, names()[k.1], ci) });
                }
            }
            // grace period for answers that must not come (a stopped or foreign instance)
            std::thread::sleep(Duration::from_millis(40));
            let answers: Vec<Frame> = w.snapshot().into_iter().filter(|x| x.topic.ends_with(".out") && meta_str(x, "frame_id") == Some(ping.id.to_string())).collect();
            for a in &answers {
                let hid = meta_str(a, "handler_id").unwrap_or_default();
                if !expect.iter().any(|(_, id)| id.to_string() == hid) {
                    let zombie = stopped.iter().any(|s| s.to_string() == hid);
                    fs.push(F {
                        kind: if zombie { "c16.zombie".into() } else { "c16.foreign_answer".into() },
                        msg: format!("{} step {}: frame of context {} was answered by handler {} which is {}", label, step, ci, hid, if zombie { "stopped" } else { "not active in that context" }),
                    });
                }
            }
            if answers.len() > expect.len() {
                fs.push(F { kind: "c16.duplicate_answer".into(), msg: format!("{} step {}: {} answers from {} active instances", label, step, answers.len(), expect.len()) });
            }
        }
        // each stop announced exactly once
        let log = w.snapshot();
        let mut seen: BTreeMap<String, usize> = BTreeMap::new();
        for x in log.iter().filter(|x| x.topic.ends_with(".unregistered") && !is_boot(x)) {
            *seen.entry(meta_str(x, "handler_id").unwrap_or_default()).or_insert(0) += 1;
        }
        for (hid, n) in &seen {
            if *n > 1 {
                fs.push(F { kind: "c16.unregistered.twice".into(), msg: format!("{} step {}: {} unregistered frames for handler {}", label, step, n, hid) });
            }
            if !stopped.iter().any(|s| s.to_string() == *hid) {
                fs.push(F { kind: "c16.unregistered.spurious".into(), msg: format!("{} step {}: handler {} was announced as stopped but should be active", label, step, hid) });
            }
        }
        // ... and durably: the stored stream holds the announcement (a restart decides by it)
        if step + 1 == h.len() {
            let stored: Vec<Frame> = w.store.read_sync(None, None, None).collect();
            for sid in &stopped {
                let n = stored.iter().filter(|x| x.topic.ends_with(".unregistered") && meta_str(x, "handler_id") == Some(sid.to_string())).count();
                if n != 1 {
                    fs.push(F { kind: "c16.unregistered.not_stored".into(), msg: format!("{} step {}: the stored stream holds {} unregistered frames for the stopped handler {}", label, step, n, sid) });
                }
            }
            for ((ci, ni), id) in &active {
                let n = stored.iter().filter(|x| x.topic == format!("{}.registered", names()[*ni]) && x.context_id == ctxs[*ci] && meta_str(x, "handler_id") == Some(id.to_string())).count();
                if n != 1 {
                    fs.push(F { kind: "c16.registered.not_stored".into(), msg: format!("{} step {}: the stored stream holds {} registered frames for the active handler {}", label, step, n, id) });
                }
            }
        }
        outcome.push(format!("{}:{}", w.snapshot().len() - mark, active.len()));
        if !fs.is_empty() {
            break;
        }
    }
    w.stop();
    (fs, outcome.join(","))
}

pub fn histories(depth: usize, thorough: bool) -> Vec<Vec<Ev>> {
    let mut alphabet = vec![];
    for name in 0..2 {
        for ctx in 0..2 {
            if !thorough && name == 1 && ctx == 1 {
                continue;
            }
            alphabet.push(Ev::Register { name, ctx });
            alphabet.push(Ev::Unregister { name, ctx });
            if thorough || (name == 0 && ctx == 0) {
                alphabet.push(Ev::RegisterInvalid { name, ctx });
            }
        }
    }
    for ctx in 0..2 {
        alphabet.push(Ev::TriggerOk { ctx });
        alphabet.push(Ev::TriggerFail { ctx });
    }
    alphabet.push(Ev::UnregisterMeta { name: 0, ctx: 0 });
    alphabet.push(Ev::SelfRetire { ctx: 0 });
    if thorough {
        alphabet.push(Ev::UnregisterMeta { name: 0, ctx: 1 });
        alphabet.push(Ev::SelfRetire { ctx: 1 });
    }
    let mut out: Vec<Vec<Ev>> = vec![];
    let mut level: Vec<Vec<Ev>> = vec![vec![]];
    for _ in 0..depth {
        let mut next = vec![];
        for h in &level {
            for e in &alphabet {
                // prune: histories must start with a registration (nothing happens before one)
                if h.is_empty() && !matches!(e, Ev::Register { .. } | Ev::RegisterInvalid { .. }) {
                    continue;
                }
                // a trigger directly after a trigger of the same kind adds nothing
                if let (Some(Ev::TriggerOk { ctx: a }), Ev::TriggerOk { ctx: b }) = (h.last(), e) {
                    if a == b {
                        continue;
                    }
                }
                let mut n = h.clone();
                n.push(e.clone());
                next.push(n);
            }
        }
        out.extend(next.iter().cloned());
        level = next;
    }
    out
}

// ---- cold start: the service comes up on a log that already holds registrations ------------

/// `log`: registrations appended while no handler service runs ("v" valid, "i" script that does
/// not construct), each under its own name in context A; then the service starts.
pub fn run_cold(log: &[String]) -> (Vec<F>, String) {
    let mut fs = vec![];
    let w = World::start(Serve::default());
    let ctx = w.ctx_a;
    let label = format!("cold start on {:?}", log);
    let mut regs: Vec<(String, Scru128Id, bool)> = vec![];
    let mut orphaned = false;
    for (i, k) in log.iter().enumerate() {
        let name = format!("cold{}", i);
        if k == "x" {
            // a valid registration in a context whose own registration is removed before the
            // service starts: it cannot announce itself - and must not stop the others
            w.append_c(&format!("{}.register", name), w.ctx_b, Some(&lifecycle_script(&name)), None);
            orphaned = true;
            continue;
        }
        let valid = k == "v";
        let src = if valid { lifecycle_script(&name) } else { "{run: {|a, b| 1}".to_string() };
        let f = w.append_c(&format!("{}.register", name), ctx, Some(&src), None);
        regs.push((name, f.id, valid));
    }
    if orphaned {
        w.store.remove(&w.ctx_b).expect("harness: remove context registration");
    }
    let (s, e) = (w.store.clone(), xs::nu::Engine::new().expect("nu engine"));
    w.rt.spawn(async move {
        let _ = xs::handlers::serve(s, e).await;
    });
    // every retained registration is answered: started, or reported with its error
    for (name, id, valid) in &regs {
        let a = w.wait(|x| (x.topic == format!("{}.registered", name) || x.topic == format!("{}.unregistered", name)) && meta_str(x, "handler_id") == Some(id.to_string()), 10.0);
        match (a, valid) {
            (None, _) => fs.push(F { kind: "c16.cold.silent".into(), msg: format!("{}: registration {} ({}) was neither started nor reported", label, name, if *valid { "valid" } else { "invalid" }) }),
            (Some(a), true) if a.topic.ends_with(".unregistered") => fs.push(F { kind: "c16.cold.valid_stopped".into(), msg: format!("{}: valid registration {} was reported as stopped: {:?}", label, name, a.meta) }),
            (Some(a), false) if a.topic.ends_with(".registered") => fs.push(F { kind: "c16.cold.invalid_started".into(), msg: format!("{}: invalid registration {} was announced as registered", label, name) }),
            (Some(a), false) => {
                if meta_str(&a, "error").map(|e| e.is_empty()).unwrap_or(true) {
                    fs.push(F { kind: "c16.unregistered.meta".into(), msg: format!("{}: no error on {:?}", label, a.meta) });
                }
            }
            _ => {}
        }
    }
    // the service is alive: a registration arriving now is served, and the started ones answer
    let live = w.append_c("coldlive.register", ctx, Some(&lifecycle_script("coldlive")), None);
    if w.wait(|x| x.topic == "coldlive.registered" && meta_str(x, "handler_id") == Some(live.id.to_string()), 10.0).is_none() {
        fs.push(F { kind: "c16.cold.service_dead".into(), msg: format!("{}: a registration appended after the start-up is not served any more", label) });
    }
    if fs.is_empty() {
        let ping = w.append_c("ping", ctx, None, None);
        for (name, id, valid) in &regs {
            if *valid && w.wait(|x| x.topic == format!("{}.out", name) && meta_str(x, "frame_id") == Some(ping.id.to_string()) && meta_str(x, "handler_id") == Some(id.to_string()), 10.0).is_none() {
                fs.push(F { kind: "c16.active.silent".into(), msg: format!("{}: {} was announced but does not process frames", label, name) });
            }
        }
        std::thread::sleep(Duration::from_millis(40));
        let log2 = w.snapshot();
        for (name, id, _) in &regs {
            let n = log2.iter().filter(|x| (x.topic == format!("{}.registered", name) || x.topic == format!("{}.unregistered", name)) && meta_str(x, "handler_id") == Some(id.to_string())).count();
            if n != 1 {
                fs.push(F { kind: "c16.cold.announcements".into(), msg: format!("{}: {} announcements for {}", label, n, name) });
            }
        }
    }
    w.stop();
    (fs, format!("cold{}", log.len()))
}

pub fn cold_logs() -> Vec<Vec<String>> {
    let mut out = vec![];
    for n in 1..=3usize {
        for mask in 0..(1u32 << n) {
            out.push((0..n).map(|i| if mask & (1 << i) != 0 { "i".to_string() } else { "v".to_string() }).collect());
        }
    }
    for l in [vec!["x"], vec!["x", "v"], vec!["v", "x"], vec!["x", "i"], vec!["v", "x", "v"]] {
        out.push(l.into_iter().map(|s| s.to_string()).collect());
    }
    out
}

pub fn worker() {
    common::worker_loop(move |job| {
        if job.get("cold").is_some() {
            let log: Vec<String> = serde_json::from_value(job["cold"].clone()).unwrap();
            let (fs, outcome) = run_cold(&log);
            return json!({"findings": fs.iter().map(|f| json!({"kind": f.kind, "msg": f.msg})).collect::<Vec<_>>(), "outcome": outcome});
        }
        if job.get("race").is_some() {
            let prefix: Vec<usize> = serde_json::from_value(job["prefix"].clone()).unwrap();
            let (points, fs, outcome, error) = run_race(job["race"].as_str().unwrap(), &prefix);
            json!({"points": points, "findings": fs.iter().map(|f| json!({"kind": f.kind, "msg": f.msg})).collect::<Vec<_>>(), "outcome": outcome, "error": error})
        } else {
            let h: Vec<Ev> = serde_json::from_value(job["history"].clone()).unwrap();
            let (fs, outcome) = run_history(&h);
            json!({"findings": fs.iter().map(|f| json!({"kind": f.kind, "msg": f.msg})).collect::<Vec<_>>(), "outcome": outcome})
        }
    });
}

pub fn run(tier: &str, report: &mut Report) {
    let thorough = common::tier_is_thorough(tier);
    // (a) the start-up race: all schedules (no preemption bound: the space is tiny)
    let mut race_exec = 0u64;
    let mut race_points = 0u64;
    let mut outcomes: HashSet<String> = HashSet::new();
    let mut samples = vec![];
    for resume in ["tail", "head", "after"] {
        let mut frontier: Vec<Vec<usize>> = vec![vec![]];
        let mut parents: BTreeMap<Vec<usize>, String> = BTreeMap::new();
        while !frontier.is_empty() {
            let jobs: Vec<Value> = frontier.iter().map(|p| json!({"race": resume, "prefix": p})).collect();
            let results = common::pool_map("c16", &[], common::ncpu(), jobs);
            let mut next = vec![];
            for (p, r) in frontier.iter().zip(results.iter()) {
                if r.get("crashed").is_some() || r["error"].is_string() {
                    eprintln!("HARNESS ERROR: race {} prefix {:?}: {} :: parent {:?}", resume, p, r, parents.get(p));
                    std::process::exit(2);
                }
                race_exec += 1;
                let points: Vec<PointRec> = serde_json::from_value(r["points"].clone()).unwrap();
                race_points += points.len() as u64;
                outcomes.insert(r["outcome"].as_str().unwrap_or("").to_string());
                if samples.len() < 3 {
                    samples.push(json!({"resume": resume, "schedule": r["outcome"]}));
                }
                for f in r["findings"].as_array().cloned().unwrap_or_default() {
                    report.add_violation(Violation {
                        property: "C16".into(),
                        signature: format!("E2:startup-race:{}:{}", resume, f["kind"].as_str().unwrap_or("")),
                        message: f["msg"].as_str().unwrap_or("").to_string(),
                        replay: json!({"engine": "c16", "race": resume, "prefix": p}),
                    });
                }
                for (i, pt) in points.iter().enumerate() {
                    if i >= p.len() {
                        for alt in 1..pt.enabled.len() {
                            let mut np: Vec<usize> = points[..i].iter().map(|q| q.chosen).collect();
                            np.push(alt);
                            parents.insert(np.clone(), format!("{:?} -> {}", p, r["points"]));
                            next.push(np);
                        }
                    }
                }
            }
            frontier = next;
        }
    }
    // (b) lifecycle histories
    let hs = histories(if thorough { 4 } else { 3 }, thorough);
    let jobs: Vec<Value> = hs.iter().map(|h| json!({"history": h})).collect();
    let results = common::pool_map("c16", &[], common::ncpu(), jobs);
    let mut houtcomes: HashSet<String> = HashSet::new();
    for (h, r) in hs.iter().zip(results.iter()) {
        if r.get("crashed").is_some() {
            eprintln!("HARNESS ERROR: history {:?}: {}", h, r);
            std::process::exit(2);
        }
        houtcomes.insert(r["outcome"].as_str().unwrap_or("").to_string());
        for f in r["findings"].as_array().cloned().unwrap_or_default() {
            report.add_violation(Violation {
                property: "C16".into(),
                signature: format!("E5:lifecycle:{}", f["kind"].as_str().unwrap_or("")),
                message: f["msg"].as_str().unwrap_or("").to_string(),
                replay: json!({"engine": "c16", "history": h}),
            });
        }
    }
    // (c) cold starts
    let logs = cold_logs();
    let jobs: Vec<Value> = logs.iter().map(|l| json!({"cold": l})).collect();
    let results = common::pool_map("c16", &[], common::ncpu(), jobs);
    for (l, r) in logs.iter().zip(results.iter()) {
        if r.get("crashed").is_some() {
            eprintln!("HARNESS ERROR: cold start {:?}: {}", l, r);
            std::process::exit(2);
        }
        for f in r["findings"].as_array().cloned().unwrap_or_default() {
            report.add_violation(Violation {
                property: "C16".into(),
                signature: format!("E5:cold:{}", f["kind"].as_str().unwrap_or("")),
                message: f["msg"].as_str().unwrap_or("").to_string(),
                replay: json!({"engine": "c16", "cold": l}),
            });
        }
    }
    report.cov("cold_starts", json!({"logs": logs.len(), "rule": "every log of 1..3 registrations (valid / not constructible) appended before the handler service starts, plus logs with a registration whose context was unregistered in the meantime"}));
    samples.push(json!({"history": hs.get(hs.len() / 2)}));
    report.cov("states", json!(race_points + hs.iter().map(|h| h.len() as u64).sum::<u64>()));
    report.cov("transitions", json!(race_points + hs.iter().map(|h| h.len() as u64).sum::<u64>()));
    report.cov("traces_validated_against_impl", json!(race_exec + hs.len() as u64));
    report.cov("startup_race", json!({"executions": race_exec, "decision_points": race_points, "distinct_outcomes": outcomes.len(), "preemption_bound": "unbounded (all schedules)"}));
    report.cov("lifecycle", json!({"histories": hs.len(), "depth": if thorough { 4 } else { 3 }, "distinct_outcomes": houtcomes.len()}));
    report.cov("exhaustive", json!(true));
    report.cov("samples", json!(samples));
    report.cov("explanation", json!("(a) every interleaving of {spawner: announce .registered} x {handler task: start (and subscribe)} x {client: wait for .registered, append trigger} for resume modes tail/head/after-id on the real Handler::spawn under the controlled scheduler, followed by a flush frame; (b) every history of register / invalid register / unregister / ok trigger / failing trigger over 2 names x 2 contexts up to the depth, against a model of the active instance per (context, name); (c) cold starts: every log of 1..3 valid / non-constructible registrations appended before the service starts - each is started or reported with its error exactly once, and the service keeps serving"));
}

pub fn replay(v: &Value) -> i32 {
    let fs = if v.get("cold").is_some() {
        let log: Vec<String> = serde_json::from_value(v["cold"].clone()).unwrap();
        let (fs, outcome) = run_cold(&log);
        println!("outcome {}", outcome);
        fs
    } else if v.get("race").is_some() {
        let prefix: Vec<usize> = serde_json::from_value(v["prefix"].clone()).unwrap();
        let (pts, fs, outcome, error) = run_race(v["race"].as_str().unwrap(), &prefix);
        for p in &pts {
            println!("point {:?} -> {}", p.enabled.iter().map(|e| e.split('@').last().unwrap_or("").to_string()).collect::<Vec<_>>(), p.chosen);
        }
        println!("outcome {} error {:?}", outcome.split('|').last().unwrap_or(""), error);
        fs
    } else {
        let h: Vec<Ev> = serde_json::from_value(v["history"].clone()).unwrap();
        let (fs, outcome) = run_history(&h);
        println!("outcome {}", outcome);
        fs
    };
    for f in &fs {
        println!("finding {}: {}", f.kind, f.msg);
    }
    if fs.is_empty() {
        0
    } else {
        1
    }
}
