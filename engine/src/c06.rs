//! C06 over HTTP: streaming routes scoped to a context never carry frames of another context.
//! Deterministic leak test: the stream is read up to a sentinel frame appended to the requested
//! context after frames were appended to every other context.
use std::time::{Duration, Instant};

use scru128::Scru128Id;
use serde_json::{json, Value};
use xs::store::{Frame, ZERO_CONTEXT};

use crate::common;
use crate::http::{Conn, Req, Server};

pub struct F {
    pub kind: String,
    pub msg: String,
    pub case: Value,
}

#[allow(clippy::too_many_arguments)]
fn run_case(route: &str, target: usize, with_head: bool, order: &[usize], sse: bool, omit_ctx: bool, future_head: bool) -> (Vec<F>, String) {
    let mut fs = vec![];
    let dir = common::scratch_dir("c06");
    let server = Server::start(dir);
    let store = server.store.clone();
    let a = store.append(Frame::builder("xs.context", ZERO_CONTEXT).build()).unwrap().id;
    // numerically adjacent second context, registered through import
    let b = Scru128Id::from_u128(a.to_u128() + 1);
    store.insert_frame(&Frame::builder("xs.context", ZERO_CONTEXT).id(b).build()).unwrap();
    let ctxs = [ZERO_CONTEXT, a, b];
    let case = json!({"route": route, "target_ctx": target, "head_exists": with_head, "foreign_order": order, "sse": sse, "context_param_omitted": omit_ctx, "head_imported_with_an_id_ahead_of_the_clock": future_head});
    if with_head {
        for (i, c) in ctxs.iter().enumerate() {
            if future_head {
                // the current head arrived by import from a machine whose clock runs ahead
                let id = Scru128Id::from_u128(scru128::new().to_u128() + (3_600_000u128 << 80) + i as u128);
                store.insert_frame(&Frame::builder("a", *c).id(id).build()).unwrap();
            } else {
                store.append(Frame::builder("a", *c).build()).unwrap();
            }
        }
    }
    let tctx = ctxs[target];
    let req = match route {
        // without a `context` parameter the head route means the zero context
        "head-follow" if omit_ctx => Req::new("GET", "/head/a?follow=true"),
        "head-follow" => Req::new("GET", &format!("/head/a?follow=true&context={}", tctx)),
        _ => {
            let r = Req::new("GET", &format!("/?follow=true&context-id={}", tctx));
            if sse {
                r.header("Accept", b"text/event-stream")
            } else {
                r
            }
        }
    };
    let mut conn = Conn::open(&server.sock).expect("connect");
    let head = conn.start(&req);
    if head.status != 200 {
        fs.push(F { kind: "c06.http.status".into(), msg: format!("{} answered {} {:?}", req.target, head.status, head.error), case: case.clone() });
        server.stop();
        return (fs, "status".into());
    }
    // the subscription exists once the head has been sent (handle_* awaits store.read first)
    for o in order {
        store.append(Frame::builder("a", ctxs[*o]).meta(json!({"foreign": true})).build()).unwrap();
    }
    let sentinel = store.append(Frame::builder("a", tctx).meta(json!({"sentinel": true})).build()).unwrap();
    let deadline = Instant::now() + Duration::from_secs(10);
    let mut text = String::new();
    let mut seen = false;
    while let Some(chunk) = conn.next_chunk(deadline) {
        text.push_str(&String::from_utf8_lossy(&chunk));
        if text.contains(&sentinel.id.to_string()) && (text.ends_with('\n')) {
            seen = true;
            break;
        }
    }
    if !seen {
        fs.push(F { kind: "c06.http.sentinel".into(), msg: format!("{}: the frame appended to the requested context never arrived", req.target), case: case.clone() });
    }
    let mut n = 0;
    for line in text.lines() {
        let l = line.strip_prefix("data: ").unwrap_or(line);
        if l.is_empty() || line.starts_with("id: ") {
            continue;
        }
        if let Ok(f) = serde_json::from_str::<Frame>(l) {
            if f.topic == "xs.threshold" || f.topic == "xs.pulse" {
                continue;
            }
            n += 1;
            if f.context_id != tctx {
                fs.push(F {
                    kind: "c06.http.leak".into(),
                    msg: format!("{} delivered frame {} ({:?}) of context {} (requested context {})", req.target, f.id, f.topic, f.context_id, tctx),
                    case: case.clone(),
                });
            }
        }
    }
    server.stop();
    (fs, format!("{}:{}", route, n))
}

pub fn cases() -> Vec<Value> {
    let mut v = vec![];
    for route in ["head-follow", "cat-follow"] {
        for target in 0..3usize {
            for with_head in [false, true] {
                let others: Vec<usize> = (0..3).filter(|c| *c != target).collect();
                for order in [vec![others[0], others[1]], vec![others[1], others[0]]] {
                    for sse in [false, true] {
                        if route == "head-follow" && sse {
                            continue;
                        }
                        v.push(json!({"route": route, "target": target, "with_head": with_head, "order": order, "sse": sse, "omit_ctx": false}));
                        if route == "head-follow" && target == 0 {
                            v.push(json!({"route": route, "target": target, "with_head": with_head, "order": order, "sse": sse, "omit_ctx": true}));
                        }
                        if with_head && order[0] == others[0] {
                            v.push(json!({"route": route, "target": target, "with_head": with_head, "order": order, "sse": sse, "omit_ctx": false, "future_head": true}));
                        }
                    }
                }
            }
        }
    }
    v
}

pub fn run_case_json(c: &Value) -> (Vec<F>, String) {
    if c.get("script_paths").is_some() {
        let (fs, n) = run_scripts();
        return (fs, format!("scripts:{}", n));
    }
    let order: Vec<usize> = serde_json::from_value(c["order"].clone()).unwrap();
    run_case(c["route"].as_str().unwrap(), c["target"].as_u64().unwrap() as usize, c["with_head"].as_bool().unwrap(), &order, c["sse"].as_bool().unwrap(), c["omit_ctx"].as_bool().unwrap_or(false), c["future_head"].as_bool().unwrap_or(false))
}

pub fn worker() {
    common::worker_loop(move |job| {
        let (fs, outcome) = run_case_json(&job);
        json!({"findings": fs.iter().map(|f| json!({"kind": f.kind, "msg": f.msg, "case": f.case})).collect::<Vec<_>>(), "outcome": outcome})
    });
}

/// Script-level paths: `.cat` / `.head` inside a handler and inside a command running for context
/// B see only B unless the script names another context explicitly; a handler in B is not
/// triggered by A's frames and its output (even with `--context A`) lands in B.
pub fn run_scripts() -> (Vec<F>, u64) {
    use crate::e5::{meta_str, Serve, World};
    let mut fs = vec![];
    let mut evals = 0u64;
    for (first, second) in [(0usize, 1usize), (1, 0)] {
        let w = World::start(Serve { handlers: true, commands: true, ..Default::default() });
        let ctxs = [w.ctx_a, w.ctx_b];
        let (a, b) = (ctxs[first], ctxs[second]);
        let case = json!({"script_paths": true, "other_ctx_is_older": first == 0});
        w.append_c("a", a, Some("in-a-1"), None);
        w.append_c("a", b, Some("in-b-1"), None);
        w.append_c("a", a, Some("in-a-2"), None);
        w.append_c("a", xs::store::ZERO_CONTEXT, Some("in-zero"), None);
        let body = format!(
            "{{cat: (.cat | get context_id | uniq), n: (.cat | length), last: (.cat --last-id (.cat | first | get id) | get context_id | uniq), head: (.head a | get context_id), head_other: (.head a --context {} | get context_id), head_none: ((.head nosuch) == null)}}",
            a
        );
        // handler in B
        let reg = w.append_c("iso.register", b, Some(&format!("{{run: {{|frame| if $frame.topic != \"go\" {{ return }}; \"x\" | .append leak --context {}; {}}}}}", a, body)), None);
        w.wait(|f| f.topic == "iso.registered" && meta_str(f, "handler_id") == Some(reg.id.to_string()), 20.0);
        // a frame in A must not trigger it
        let go_a = w.append_c("go", a, None, None);
        w.append_c("a", b, Some("in-b-2"), None);
        let go_b = w.append_c("go", b, None, None);
        let out = w.wait(|f| f.topic == "iso.out" && meta_str(f, "frame_id") == Some(go_b.id.to_string()), 20.0);
        // command defined in B - after the byte-identical script was defined under the same name
        // in A (nothing prepared for one context may serve the other)
        w.append_c("isoc.define", a, Some(&format!("{{run: {{|frame| {}}}}}", body)), None);
        w.append_c("isoc.define", b, Some(&format!("{{run: {{|frame| {}}}}}", body)), None);
        let call = w.append_c("isoc.call", b, None, None);
        let cout = w.wait(|f| f.topic == "isoc.recv" && meta_str(f, "frame_id") == Some(call.id.to_string()), 20.0);
        for (via, fr) in [("handler", out), ("command", cout)] {
            evals += 1;
            let Some(fr) = fr else {
                let err = w.snapshot().into_iter().rev().find(|f| f.topic.ends_with(".error") || f.topic.ends_with(".unregistered")).and_then(|f| f.meta);
                fs.push(F { kind: "c06.script.no_answer".into(), msg: format!("{} script in context B gave no answer: {:?}", via, err), case: case.clone() });
                continue;
            };
            let v: Value = w.content(&fr).and_then(|c| serde_json::from_str(&c).ok()).unwrap_or(Value::Null);
            let bs = b.to_string();
            let as_ = a.to_string();
            let only_b = |x: &Value| x.as_array().map(|arr| arr.iter().all(|c| c.as_str() == Some(bs.as_str())) && !arr.is_empty()).unwrap_or(false);
            if !only_b(&v["cat"]) || v["n"].as_i64().map(|n| n < 2).unwrap_or(true) {
                fs.push(F { kind: "c06.script.cat".into(), msg: format!(".cat inside a {} of context B returned contexts {} ({} frames); B is {}", via, v["cat"], v["n"], bs), case: case.clone() });
            }
            if !only_b(&v["last"]) {
                fs.push(F { kind: "c06.script.cat".into(), msg: format!(".cat --last-id inside a {} of context B returned contexts {}", via, v["last"]), case: case.clone() });
            }
            if v["head"].as_str() != Some(bs.as_str()) {
                fs.push(F { kind: "c06.script.head".into(), msg: format!(".head a inside a {} of context B returned a frame of context {}", via, v["head"]), case: case.clone() });
            }
            if v["head_other"].as_str() != Some(as_.as_str()) {
                fs.push(F { kind: "c06.script.head_explicit".into(), msg: format!(".head a --context A inside a {} of context B returned context {}", via, v["head_other"]), case: case.clone() });
            }
            if v["head_none"].as_bool() != Some(true) {
                fs.push(F { kind: "c06.script.head".into(), msg: format!(".head of an unused topic inside a {} of context B returned something: {}", via, v), case: case.clone() });
            }
        }
        std::thread::sleep(std::time::Duration::from_millis(40));
        let log = w.snapshot();
        if log.iter().any(|f| f.topic == "iso.out" && meta_str(f, "frame_id") == Some(go_a.id.to_string())) {
            fs.push(F { kind: "c06.script.dispatch".into(), msg: "a frame of context A triggered the handler registered in context B".into(), case: case.clone() });
        }
        for f in log.iter().filter(|f| f.topic == "leak" || f.topic == "iso.out") {
            if f.context_id != b {
                fs.push(F { kind: "c06.script.output".into(), msg: format!("handler output {:?} landed in context {} instead of the handler's", f.topic, f.context_id), case: case.clone() });
            }
        }
        evals += 2;
        w.stop();
    }
    (fs, evals)
}
