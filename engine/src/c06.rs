//! C06 over HTTP: streaming routes scoped to a context never carry frames of another context.
//! Deterministic leak test: the stream is read up to a sentinel frame appended to the requested
//! context after frames were appended to every other context.
use std::time::{Duration, Instant};

use scru128::Scru128Id;
use serde_json::{json, Value};
use xs::store::{Frame, ZERO_CONTEXT};

use crate::common;
use crate::http::{Conn, Req, Server};

pub struct F {
    pub kind: String,
    pub msg: String,
    pub case: Value,
}

fn run_case(route: &str, target: usize, with_head: bool, order: &[usize], sse: bool, omit_ctx: bool) -> (Vec<F>, String) {
    let mut fs = vec![];
    let dir = common::scratch_dir("c06");
    let server = Server::start(dir);
    let store = server.store.clone();
    let a = store.append(Frame::builder("xs.context", ZERO_CONTEXT).build()).unwrap().id;
    // numerically adjacent second context, registered through import
    let b = Scru128Id::from_u128(a.to_u128() + 1);
    store.insert_frame(&Frame::builder("xs.context", ZERO_CONTEXT).id(b).build()).unwrap();
    let ctxs = [ZERO_CONTEXT, a, b];
    let case = json!({"route": route, "target_ctx": target, "head_exists": with_head, "foreign_order": order, "sse": sse, "context_param_omitted": omit_ctx});
    if with_head {
        for c in &ctxs {
            store.append(Frame::builder("a", *c).build()).unwrap();
        }
    }
    let tctx = ctxs[target];
    let req = match route {
        // without a `context` parameter the head route means the zero context
        "head-follow" if omit_ctx => Req::new("GET", "/head/a?follow=true"),
        "head-follow" => Req::new("GET", &format!("/head/a?follow=true&context={}", tctx)),
        _ => {
            let r = Req::new("GET", &format!("/?follow=true&context-id={}", tctx));
            if sse {
                r.header("Accept", b"text/event-stream")
            } else {
                r
            }
        }
    };
    let mut conn = Conn::open(&server.sock).expect("connect");
    let head = conn.start(&req);
    if head.status != 200 {
        fs.push(F { kind: "c06.http.status".into(), msg: format!("{} answered {} {:?}", req.target, head.status, head.error), case: case.clone() });
        server.stop();
        return (fs, "status".into());
    }
    // the subscription exists once the head has been sent (handle_* awaits store.read first)
    for o in order {
        store.append(Frame::builder("a", ctxs[*o]).meta(json!({"foreign": true})).build()).unwrap();
    }
    let sentinel = store.append(Frame::builder("a", tctx).meta(json!({"sentinel": true})).build()).unwrap();
    let deadline = Instant::now() + Duration::from_secs(10);
    let mut text = String::new();
    let mut seen = false;
    while let Some(chunk) = conn.next_chunk(deadline) {
        text.push_str(&String::from_utf8_lossy(&chunk));
        if text.contains(&sentinel.id.to_string()) && (text.ends_with('\n')) {
            seen = true;
            break;
        }
    }
    if !seen {
        fs.push(F { kind: "c06.http.sentinel".into(), msg: format!("{}: the frame appended to the requested context never arrived", req.target), case: case.clone() });
    }
    let mut n = 0;
    for line in text.lines() {
        let l = line.strip_prefix("data: ").unwrap_or(line);
        if l.is_empty() || line.starts_with("id: ") {
            continue;
        }
        if let Ok(f) = serde_json::from_str::<Frame>(l) {
            if f.topic == "xs.threshold" || f.topic == "xs.pulse" {
                continue;
            }
            n += 1;
            if f.context_id != tctx {
                fs.push(F {
                    kind: "c06.http.leak".into(),
                    msg: format!("{} delivered frame {} ({:?}) of context {} (requested context {})", req.target, f.id, f.topic, f.context_id, tctx),
                    case: case.clone(),
                });
            }
        }
    }
    server.stop();
    (fs, format!("{}:{}", route, n))
}

pub fn cases() -> Vec<Value> {
    let mut v = vec![];
    for route in ["head-follow", "cat-follow"] {
        for target in 0..3usize {
            for with_head in [false, true] {
                let others: Vec<usize> = (0..3).filter(|c| *c != target).collect();
                for order in [vec![others[0], others[1]], vec![others[1], others[0]]] {
                    for sse in [false, true] {
                        if route == "head-follow" && sse {
                            continue;
                        }
                        v.push(json!({"route": route, "target": target, "with_head": with_head, "order": order, "sse": sse, "omit_ctx": false}));
                        if route == "head-follow" && target == 0 {
                            v.push(json!({"route": route, "target": target, "with_head": with_head, "order": order, "sse": sse, "omit_ctx": true}));
                        }
                    }
                }
            }
        }
    }
    v
}

pub fn run_case_json(c: &Value) -> (Vec<F>, String) {
    let order: Vec<usize> = serde_json::from_value(c["order"].clone()).unwrap();
    run_case(c["route"].as_str().unwrap(), c["target"].as_u64().unwrap() as usize, c["with_head"].as_bool().unwrap(), &order, c["sse"].as_bool().unwrap(), c["omit_ctx"].as_bool().unwrap_or(false))
}

pub fn worker() {
    common::worker_loop(move |job| {
        let (fs, outcome) = run_case_json(&job);
        json!({"findings": fs.iter().map(|f| json!({"kind": f.kind, "msg": f.msg, "case": f.case})).collect::<Vec<_>>(), "outcome": outcome})
    });
}
