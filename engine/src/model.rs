//! E1: reference model of the store, operation alphabet, execution of a history against a
//! fresh real store, oracles. See DESIGN.md §3 and §E1.
use std::collections::{BTreeMap, BTreeSet};
use std::path::PathBuf;
use std::time::Duration;

use scru128::Scru128Id;
use serde::{Deserialize, Serialize};
use serde_json::{json, Value};

use xs::store::{FollowOption, Frame, ReadOptions, Store, TTL, ZERO_CONTEXT};

use crate::common;

pub const TIME_TTL_MS: u64 = 3_600_000;

#[derive(Serialize, Deserialize, Clone, Debug, PartialEq, Eq, Hash, PartialOrd, Ord)]
pub enum Ctx {
    Zero,
    /// k-th usable-or-formerly-usable context of this history, in id order of its registration
    Reg(usize),
    /// a fixed id that is never registered
    Never,
    /// the id of the live frame at `rank` used as a context id (usable only if that frame is a
    /// registration)
    OfFrame(usize),
}

#[derive(Serialize, Deserialize, Clone, Debug, PartialEq, Eq, Hash)]
#[serde(tag = "op")]
pub enum Op {
    Append {
        topic: String,
        ctx: Ctx,
        ttl: String,
        #[serde(default)]
        meta: Option<Value>,
        #[serde(default)]
        body: Option<String>,
    },
    /// append `xs.context` (ttl as requested) into `ctx`
    Register { ctx: Ctx, ttl: String },
    Remove { rank: usize },
    RemoveUnknown,
    /// import a new frame with id just below every existing id
    ImportOlder { topic: String, ctx: Ctx, ttl: String },
    /// import a new frame with id = id(rank)+1 (adjacent, lies between two existing frames)
    ImportAfter { rank: usize, topic: String, ctx: Ctx, ttl: String },
    /// re-import the stored frame unchanged
    ImportDup { rank: usize },
    /// import a new frame whose id lies an hour ahead of the local clock (and of every stored id)
    ImportFuture { topic: String, ctx: Ctx, ttl: String },
    /// import a registration frame (`xs.context`, zero context) with id = id(Reg(of))+1,
    /// i.e. a context numerically adjacent to an existing one
    ImportRegAdjacent { of: usize },
    /// import a registration frame with a fresh id below all others
    ImportRegOlder,
    /// import a registration frame that the store refuses (meta at the nesting limit), under a
    /// fresh id or (`over`) under the id of a stored frame: nothing changes, in particular not
    /// the set of usable contexts
    ImportRegRefused { over: Option<usize> },
    /// import a frame whose topic contains NUL (must be rejected whole)
    ImportNul,
    /// import a frame that must be refused (NUL topic) under the id of the stored frame `rank`:
    /// the refusal must leave the stored frame alone
    ImportNulOver { rank: usize },
    /// import a *different* frame under the id of the stored frame `rank` (an import stores a
    /// frame as is: the frame it replaces must leave no trace behind)
    ImportOver { rank: usize, topic: String, ctx: Ctx, ttl: String },
    /// set the clock to expiry(rank)+delta
    Clock { rank: usize, delta: i64 },
    /// composite step: the clock reaches expiry(rank), a read notices it, the collector drains
    /// (= Clock{rank,0} ; ReadBattery ; GcRun, counted as one step of depth)
    ExpireCollect { rank: usize },
    ReadBattery,
    GcStep,
    GcRun,
    Flush { part: String },
    Reopen,
}

#[derive(Clone, Debug)]
pub struct MFrame {
    pub frame: Frame,
    pub evictable: bool,
    /// expired at some clock position and covered by an unlimited in-scope stream read
    pub covered: bool,
    pub imported: bool,
}

#[derive(Clone, Debug, Serialize)]
pub struct Finding {
    pub kind: String,
    pub owners: Vec<String>,
    pub msg: String,
}

fn finding(kind: &str, owners: &[&str], msg: String) -> Finding {
    Finding {
        kind: kind.to_string(),
        owners: owners.iter().map(|s| s.to_string()).collect(),
        msg,
    }
}

pub fn never_ctx() -> Scru128Id {
    // a syntactically valid id that no generator will ever produce here (timestamp 1 ms)
    Scru128Id::from_u128((1u128 << 80) | 0x1234)
}

pub fn parse_ttl_opt(s: &str) -> Option<TTL> {
    if s.is_empty() {
        None
    } else {
        Some(xs::store::parse_ttl(s).expect("menu TTL must parse"))
    }
}

fn ttl_of(f: &Frame) -> TTL {
    f.ttl.clone().unwrap_or(TTL::Forever)
}

pub struct Config {
    pub topics: Vec<String>,
    /// run the (ctx,last-id,limit) read battery after every step when it is read-only
    pub auto_battery: bool,
    pub check_follower: bool,
    /// after the last step also explore the suffix [ReadBattery if something is expired ; GcRun]
    /// (the state used for merging / expansion is the one before this look-ahead)
    pub settle_lookahead: bool,
    /// extra leaf check (C20: export/import)
    pub extra: Option<fn(&mut Exec) -> Vec<Finding>>,
    /// operations applied to every fresh store before the history (not counted as depth)
    pub preseed: Vec<Op>,
    /// read battery without the last-id / limit dimensions (retention properties only need the
    /// unlimited reads of every scope on both paths)
    pub light_battery: bool,
}

impl Default for Config {
    fn default() -> Self {
        Config {
            topics: vec!["a".into(), "ab".into()],
            auto_battery: true,
            check_follower: true,
            settle_lookahead: false,
            extra: None,
            preseed: vec![],
            light_battery: false,
        }
    }
}

pub struct Exec {
    pub dir: PathBuf,
    pub store: Option<Store>,
    pub rt: tokio::runtime::Runtime,
    pub cfg: Config,
    /// live (not Gone) frames by id
    pub live: BTreeMap<Scru128Id, MFrame>,
    /// ids that must never be returned again (removed, ephemeral, collected)
    pub gone: BTreeSet<Scru128Id>,
    /// every context id that ever was registered (stays addressable as Reg(k) after removal)
    pub ctxs: BTreeSet<Scru128Id>,
    pub min_k: BTreeMap<(Scru128Id, String), u32>,
    pub now: Option<u64>,
    pub last_append_id: Option<Scru128Id>,
    pub flushed: BTreeSet<String>,
    pub reopened: bool,
    pub findings: Vec<Finding>,
    follower: Option<tokio::sync::mpsc::Receiver<Frame>>,
    pub reads_done: u64,
    pub outcome: Vec<String>,
    pub time_frames: u64,
}

impl Exec {
    pub fn new(cfg: Config) -> Exec {
        let dir = common::scratch_dir("e1");
        let rt = tokio::runtime::Builder::new_current_thread()
            .enable_all()
            .build()
            .unwrap();
        xs::verif::set_clock(None);
        let mut e = Exec {
            dir,
            store: None,
            rt,
            cfg,
            live: BTreeMap::new(),
            gone: BTreeSet::new(),
            ctxs: BTreeSet::new(),
            min_k: BTreeMap::new(),
            now: None,
            last_append_id: None,
            flushed: BTreeSet::new(),
            reopened: false,
            findings: vec![],
            follower: None,
            reads_done: 0,
            outcome: vec![],
            time_frames: 0,
        };
        e.open();
        e
    }

    fn open(&mut self) {
        // the collector is owned from its very first task (Store::new can already queue work)
        xs::verif::set_gc_default_gated(true);
        let store = Store::new(self.dir.clone());
        xs::verif::set_gc_default_gated(false);
        store.verif_hooks().gc_set_gated(true);
        let rx = self.rt.block_on(
            store.read(
                ReadOptions::builder()
                    .follow(FollowOption::On)
                    .tail(true)
                    .build(),
            ),
        );
        self.follower = Some(rx);
        self.store = Some(store);
    }

    pub fn store(&self) -> &Store {
        self.store.as_ref().unwrap()
    }

    pub fn finish(mut self) {
        xs::verif::set_clock(None);
        self.follower = None;
        if let Some(s) = self.store.take() {
            common::close_store_async(s);
        }
        let dir = self.dir.clone();
        // the directory is removed once the store is really gone; do it lazily
        std::thread::spawn(move || {
            std::thread::sleep(Duration::from_millis(600));
            let _ = std::fs::remove_dir_all(dir);
        });
    }

    // ---- helpers -------------------------------------------------------------------------

    pub fn ctx_id(&self, c: &Ctx) -> Option<Scru128Id> {
        match c {
            Ctx::Zero => Some(ZERO_CONTEXT),
            Ctx::Never => Some(never_ctx()),
            Ctx::Reg(k) => self.ctxs.iter().nth(*k).cloned(),
            Ctx::OfFrame(r) => self.live.keys().nth(*r).cloned(),
        }
    }

    pub fn ctx_name(&self, id: &Scru128Id) -> String {
        if *id == ZERO_CONTEXT {
            "0".into()
        } else if *id == never_ctx() {
            "N".into()
        } else if let Some(k) = self.ctxs.iter().position(|c| c == id) {
            format!("R{}", k)
        } else {
            "?".into()
        }
    }

    /// usable(ctx) per the statement of C07: zero context, or a stored registration frame.
    pub fn usable(&self, id: &Scru128Id) -> bool {
        if *id == ZERO_CONTEXT {
            return true;
        }
        self.live
            .get(id)
            .map(|m| m.frame.topic == "xs.context" && m.frame.context_id == ZERO_CONTEXT)
            .unwrap_or(false)
    }

    pub fn now_ms(&self) -> u64 {
        self.now.unwrap_or_else(|| {
            std::time::SystemTime::now()
                .duration_since(std::time::UNIX_EPOCH)
                .unwrap()
                .as_millis() as u64
        })
    }

    pub fn expiry(f: &Frame) -> Option<u64> {
        match f.ttl {
            Some(TTL::Time(d)) => Some(f.id.timestamp().saturating_add(d.as_millis() as u64)),
            _ => None,
        }
    }

    pub fn expired(&self, f: &Frame) -> bool {
        match Self::expiry(f) {
            Some(e) => self.now_ms() >= e,
            None => false,
        }
    }

    pub fn rank_id(&self, rank: usize) -> Option<Scru128Id> {
        self.live.keys().nth(rank).cloned()
    }

    fn rank_of(&self, id: &Scru128Id) -> String {
        match self.live.keys().position(|k| k == id) {
            Some(r) => format!("#{}", r),
            None => {
                if self.gone.contains(id) {
                    "#gone".into()
                } else {
                    "#unknown".into()
                }
            }
        }
    }

    fn describe(&self, f: &Frame) -> String {
        format!(
            "{}[{} ctx={} ttl={:?}]",
            self.rank_of(&f.id),
            f.topic.escape_debug(),
            self.ctx_name(&f.context_id),
            f.ttl
        )
    }

    fn add(&mut self, f: Finding) {
        self.findings.push(f);
    }

    fn mark_evictable(&mut self) {
        let keys: Vec<_> = self.min_k.keys().cloned().collect();
        for key in keys {
            let k = self.min_k[&key] as usize;
            let ids: Vec<_> = self
                .live
                .values()
                .filter(|m| m.frame.context_id == key.0 && m.frame.topic == key.1)
                .map(|m| m.frame.id)
                .collect();
            if ids.len() > k {
                for id in &ids[..ids.len() - k] {
                    self.live.get_mut(id).unwrap().evictable = true;
                }
            }
        }
    }

    fn note_head_ttl(&mut self, f: &Frame) {
        if let Some(TTL::Head(n)) = f.ttl {
            let e = self
                .min_k
                .entry((f.context_id, f.topic.clone()))
                .or_insert(n);
            if n < *e {
                *e = n;
            }
        }
    }

    /// Frames the follower received since the last call, proven complete by a sentinel.
    fn drain_follower(&mut self) -> Vec<Frame> {
        let store = self.store().clone();
        let sentinel = store
            .append(
                Frame::builder("zz.sentinel", ZERO_CONTEXT)
                    .ttl(TTL::Ephemeral)
                    .build(),
            )
            .expect("sentinel append");
        self.gone.insert(sentinel.id);
        let mut out = vec![];
        let rx = self.follower.as_mut().unwrap();
        loop {
            let f = self
                .rt
                .block_on(async { tokio::time::timeout(Duration::from_secs(20), rx.recv()).await });
            match f {
                Ok(Some(f)) => {
                    if f.id == sentinel.id {
                        break;
                    }
                    out.push(f);
                }
                Ok(None) => panic!("harness: follower stream closed"),
                Err(_) => panic!("harness: follower sentinel not delivered"),
            }
        }
        out
    }

    fn pending_empty(&self) -> bool {
        self.store().verif_hooks().gc_pending().is_empty()
    }

    /// covered + drained => physically gone (C09)
    fn promote_collected(&mut self) {
        if !self.pending_empty() {
            return;
        }
        let ids: Vec<_> = self
            .live
            .values()
            .filter(|m| m.covered)
            .map(|m| m.frame.id)
            .collect();
        for id in ids {
            self.live.remove(&id);
            self.gone.insert(id);
        }
    }

    // ---- operations ----------------------------------------------------------------------

    /// Apply one operation. `check` = evaluate the oracles after it (the replayed prefix of a
    /// history was already checked when it was a leaf itself, so only the last step needs it).
    pub fn apply(&mut self, op: &Op, check: bool) {
        if let Op::ExpireCollect { rank } = op {
            self.apply(&Op::Clock { rank: *rank, delta: 0 }, false);
            self.apply(&Op::ReadBattery, false);
            self.apply(&Op::GcRun, check);
            return;
        }
        if check && self.cfg.check_follower {
            // flush what earlier (unchecked) steps broadcast
            let _ = self.drain_follower();
        }
        let before_dump = self.store().verif_dump();
        let mut expect_broadcast: Option<Vec<Scru128Id>> = Some(vec![]);
        match op {
            Op::Append {
                topic,
                ctx,
                ttl,
                meta,
                body,
            } => {
                let ctx_id = self.ctx_id(ctx).expect("menu: ctx exists");
                let hash = body.as_ref().map(|b| {
                    self.store()
                        .cas_insert_sync(b.as_bytes())
                        .expect("cas insert")
                });
                let mut ttl_v = parse_ttl_opt(ttl);
                // expiry instants of different time frames are kept a second apart, so that their
                // order never depends on the millisecond at which the ids happened to be generated
                if let Some(TTL::Time(d)) = ttl_v {
                    self.time_frames += 1;
                    ttl_v = Some(TTL::Time(d + Duration::from_millis(1000 * self.time_frames)));
                }
                // `{"$deep": n}` stands for a meta nested n levels: the store may refuse it (its
                // own encoding is one level deeper), but whatever it accepts must stay readable
                let fragile = meta.as_ref().and_then(|m| m.get("$deep")).and_then(|d| d.as_u64());
                let meta = &match fragile {
                    Some(n) => {
                        let mut v = Value::Null;
                        for _ in 0..n {
                            v = Value::Array(vec![v]);
                        }
                        Some(v)
                    }
                    None => meta.clone(),
                };
                let fr = Frame::builder(topic.clone(), ctx_id)
                    .maybe_hash(hash.clone())
                    .maybe_meta(meta.clone())
                    .maybe_ttl(ttl_v.clone())
                    .build();
                let res = self.store().append(fr);
                let should = if fragile.is_some() { res.is_ok() } else { self.usable(&ctx_id) && !topic.contains('\0') && topic != "xs.context" };
                self.after_append(res, should, topic, ctx_id, ttl_v, meta, &hash, &before_dump, &mut expect_broadcast);
            }
            Op::Register { ctx, ttl } => {
                let ctx_id = self.ctx_id(ctx).expect("menu: ctx exists");
                let ttl_v = parse_ttl_opt(ttl);
                let fr = Frame::builder("xs.context", ctx_id)
                    .maybe_ttl(ttl_v.clone())
                    .build();
                let res = self.store().append(fr);
                let should = ctx_id == ZERO_CONTEXT;
                match (&res, should) {
                    (Ok(f), true) => {
                        if f.ttl != Some(TTL::Forever) {
                            self.add(finding(
                                "ctx.ttl",
                                &["C07"],
                                format!("xs.context appended with ttl {:?} came back with ttl {:?}, expected forever", ttl, f.ttl),
                            ));
                        }
                        if let Some(last) = self.last_append_id {
                            if f.id <= last {
                                self.add(finding("ids.monotonic", &["C01"], format!("append returned id {} <= previous {}", f.id, last)));
                            }
                        }
                        self.last_append_id = Some(f.id);
                        let mut stored = f.clone();
                        stored.ttl = Some(TTL::Forever);
                        self.ctxs.insert(f.id);
                        self.live.insert(
                            f.id,
                            MFrame {
                                frame: stored,
                                evictable: false,
                                covered: false,
                                imported: false,
                            },
                        );
                        expect_broadcast = Some(vec![f.id]);
                    }
                    (Ok(f), false) => {
                        self.add(finding(
                            "ctx.regscope",
                            &["C07"],
                            format!("xs.context accepted in non-zero context {}", self.ctx_name(&ctx_id)),
                        ));
                        // keep the model in step with the store so later steps stay meaningful
                        self.live.insert(f.id, MFrame { frame: f.clone(), evictable: false, covered: false, imported: false });
                        expect_broadcast = None;
                    }
                    (Err(e), true) => {
                        self.add(finding("ctx.accept", &["C07"], format!("xs.context in the zero context rejected: {}", e)));
                    }
                    (Err(_), false) => {
                        self.check_no_trace(&before_dump, "rejected xs.context", &["C07"]);
                    }
                }
            }
            Op::Remove { rank } => {
                let id = self.rank_id(*rank).expect("menu: rank exists");
                if let Err(e) = self.store().remove(&id) {
                    self.add(finding("remove.err", &["C01"], format!("remove of stored frame failed: {}", e)));
                }
                self.live.remove(&id);
                self.gone.insert(id);
            }
            Op::RemoveUnknown => {
                let id = Scru128Id::from_u128((2u128 << 80) | 7);
                if let Err(e) = self.store().remove(&id) {
                    self.add(finding("remove.err", &["C01"], format!("remove of unknown id failed: {}", e)));
                }
                self.check_no_trace(&before_dump, "remove of unknown id", &["C01"]);
            }
            Op::ImportOlder { topic, ctx, ttl } => {
                let ctx_id = self.ctx_id(ctx).expect("menu: ctx exists");
                let id = self.older_id();
                self.import_new(id, topic, ctx_id, ttl);
            }
            Op::ImportAfter {
                rank,
                topic,
                ctx,
                ttl,
            } => {
                let ctx_id = self.ctx_id(ctx).expect("menu: ctx exists");
                let base = self.rank_id(*rank).expect("menu: rank exists");
                let id = Scru128Id::from_u128(base.to_u128() + 1);
                if self.live.contains_key(&id) || self.gone.contains(&id) {
                    return;
                }
                self.import_new(id, topic, ctx_id, ttl);
            }
            Op::ImportFuture { topic, ctx, ttl } => {
                let ctx_id = self.ctx_id(ctx).expect("menu: ctx exists");
                let newest = self.live.keys().next_back().cloned().map(|i| i.to_u128()).unwrap_or(0).max(scru128::new().to_u128());
                let id = Scru128Id::from_u128(newest + (3_600_000u128 << 80));
                self.import_new(id, topic, ctx_id, ttl);
            }
            Op::ImportDup { rank } => {
                let id = self.rank_id(*rank).expect("menu: rank exists");
                let f = self.live[&id].frame.clone();
                if let Err(e) = self.store().insert_frame(&f) {
                    self.add(finding("import.err", &["C20", "C01"], format!("re-import of a stored frame failed: {}", e)));
                }
                let after = self.store().verif_dump();
                if after != before_dump {
                    self.add(finding("import.dup", &["C20"], "re-importing a stored frame changed the store".to_string()));
                }
            }
            Op::ImportRegAdjacent { of } => {
                let base = self.ctx_id(&Ctx::Reg(*of)).expect("menu: ctx exists");
                let id = Scru128Id::from_u128(base.to_u128() + 1);
                if self.live.contains_key(&id) || self.gone.contains(&id) {
                    return;
                }
                self.import_new(id, "xs.context", ZERO_CONTEXT, "forever");
            }
            Op::ImportRegRefused { over } => {
                let id = match over {
                    Some(r) => self.rank_id(*r).expect("menu: rank exists"),
                    None => self.older_id(),
                };
                let mut meta = Value::Null;
                for _ in 0..127 {
                    meta = Value::Array(vec![meta]);
                }
                let f = Frame::builder("xs.context", ZERO_CONTEXT).id(id).meta(meta).build();
                match self.store().insert_frame(&f) {
                    Ok(()) => self.add(finding("import.deep", &["C12"], "a registration frame with a meta nested 127 levels was accepted".into())),
                    Err(_) => self.check_no_trace(&before_dump, "refused import of a registration frame", &["C07", "C05"]),
                }
            }
            Op::ImportRegOlder => {
                let id = self.older_id();
                self.import_new(id, "xs.context", ZERO_CONTEXT, "forever");
            }
            Op::ImportOver { rank, topic, ctx, ttl } => {
                let ctx_id = self.ctx_id(ctx).expect("menu: ctx exists");
                let id = self.rank_id(*rank).expect("menu: rank exists");
                let old = self.live[&id].frame.clone();
                let f = Frame::builder(topic.to_string(), ctx_id).id(id).maybe_ttl(parse_ttl_opt(ttl)).build();
                match self.store().insert_frame(&f) {
                    Ok(()) => {
                        if old.topic == "xs.context" && old.context_id == ZERO_CONTEXT {
                            self.ctxs.remove(&id);
                        }
                        if topic == "xs.context" && ctx_id == ZERO_CONTEXT {
                            self.ctxs.insert(id);
                        }
                        self.note_head_ttl(&f);
                        // the frame under this id may already have been outside the K newest of a
                        // head:K topic: by the letter of C08 its disappearance stays allowed
                        let was_evictable = self.live.get(&id).map(|m| m.evictable).unwrap_or(false);
                        self.live.insert(id, MFrame { frame: f, evictable: was_evictable, covered: false, imported: true });
                    }
                    Err(e) => self.add(finding("import.err", &["C20", "C01"], format!("import of a well-formed frame over a stored id failed: {}", e))),
                }
            }
            Op::ImportNulOver { rank } => {
                let id = self.rank_id(*rank).expect("menu: rank exists");
                let f = Frame::builder("a\0b", ZERO_CONTEXT).id(id).build();
                match self.store().insert_frame(&f) {
                    Ok(()) => self.add(finding("nul.accepted", &["C05", "C20"], "import of a frame with a NUL topic was accepted".into())),
                    Err(_) => self.check_no_trace(&before_dump, "rejected NUL-topic import under a stored id", &["C05", "C20", "C01"]),
                }
            }
            Op::ImportNul => {
                let id = self.older_id();
                let f = Frame::builder("a\0b", ZERO_CONTEXT).id(id).build();
                match self.store().insert_frame(&f) {
                    Ok(()) => self.add(finding("nul.accepted", &["C05", "C20"], "import of a frame with a NUL topic was accepted".into())),
                    Err(_) => self.check_no_trace(&before_dump, "rejected NUL-topic import", &["C05", "C20"]),
                }
            }
            Op::Clock { rank, delta } => {
                let id = self.rank_id(*rank).expect("menu: rank exists");
                let exp = Self::expiry(&self.live[&id].frame).expect("menu: time frame");
                let t = (exp as i64 + delta) as u64;
                xs::verif::set_clock(Some(t));
                self.now = Some(t);
            }
            Op::ExpireCollect { .. } => unreachable!("composite step is expanded above"),
            Op::ReadBattery => {
                self.read_battery(true);
            }
            Op::GcStep => {
                self.store().verif_hooks().gc_step();
            }
            Op::GcRun => {
                while self.store().verif_hooks().gc_step() {}
            }
            Op::Flush { part } => {
                let parts: Vec<&str> = if part == "all" {
                    vec!["stream", "idx_topic", "idx_context"]
                } else {
                    vec![part.as_str()]
                };
                for p in parts {
                    self.store().verif_flush(p).expect("flush");
                    self.flushed.insert(p.to_string());
                }
            }
            Op::Reopen => {
                self.follower = None;
                let store = self.store.take().unwrap();
                // clean close: pending collector work runs before the store closes
                if !common::close_store(store, Duration::from_secs(75)) {
                    panic!("harness: store did not close");
                }
                // all queued tasks ran
                let ids: Vec<_> = self.live.values().filter(|m| m.covered).map(|m| m.frame.id).collect();
                for id in ids {
                    self.live.remove(&id);
                    self.gone.insert(id);
                }
                self.open();
                self.reopened = true;
                self.flushed.clear();
                expect_broadcast = None;
            }
        }
        self.mark_evictable();
        self.promote_collected();

        if self.cfg.check_follower && check {
            let got = self.drain_follower();
            if let Some(exp) = expect_broadcast {
                let got_ids: Vec<_> = got.iter().map(|f| f.id).collect();
                if got_ids != exp {
                    let owners: &[&str] = match op {
                        Op::Append { ttl, .. } if ttl == "ephemeral" => &["C09", "C07"],
                        _ => &["C07"],
                    };
                    self.add(finding(
                        "broadcast.mismatch",
                        owners,
                        format!(
                            "after {:?}: live subscriber received {} frame(s) {:?}, expected {}",
                            op,
                            got_ids.len(),
                            got.iter().map(|f| f.topic.clone()).collect::<Vec<_>>(),
                            exp.len()
                        ),
                    ));
                }
            }
        }
        if check {
            self.observe();
        }
    }

    fn older_id(&self) -> Scru128Id {
        let min = self
            .live
            .keys()
            .next()
            .cloned()
            .into_iter()
            .chain(self.gone.iter().filter(|g| g.timestamp() > 10).next().cloned())
            .min();
        match min {
            Some(m) => {
                let mut v = m.to_u128() - (1u128 << 40);
                while self.live.contains_key(&Scru128Id::from_u128(v)) || self.gone.contains(&Scru128Id::from_u128(v)) {
                    v -= 1;
                }
                Scru128Id::from_u128(v)
            }
            None => {
                let n = scru128::new();
                self_gone_note(n)
            }
        }
    }

    fn import_new(&mut self, id: Scru128Id, topic: &str, ctx_id: Scru128Id, ttl: &str) {
        let f = Frame::builder(topic.to_string(), ctx_id)
            .id(id)
            .maybe_ttl(parse_ttl_opt(ttl))
            .build();
        match self.store().insert_frame(&f) {
            Ok(()) => {
                if topic == "xs.context" && ctx_id == ZERO_CONTEXT {
                    self.ctxs.insert(id);
                }
                self.note_head_ttl(&f);
                self.live.insert(
                    id,
                    MFrame {
                        frame: f,
                        evictable: false,
                        covered: false,
                        imported: true,
                    },
                );
            }
            Err(e) => self.add(finding("import.err", &["C20", "C01"], format!("import of a well-formed frame failed: {}", e))),
        }
    }

    #[allow(clippy::too_many_arguments)]
    fn after_append(
        &mut self,
        res: Result<Frame, xs::error::Error>,
        should: bool,
        topic: &str,
        ctx_id: Scru128Id,
        ttl_v: Option<TTL>,
        meta: &Option<Value>,
        hash: &Option<ssri::Integrity>,
        before_dump: &xs::verif::Dump,
        expect_broadcast: &mut Option<Vec<Scru128Id>>,
    ) {
        match (res, should) {
            (Ok(f), true) => {
                if f.topic != topic || f.context_id != ctx_id || f.ttl != ttl_v || &f.meta != meta || &f.hash != hash {
                    self.add(finding("append.echo", &["C01"], format!("append returned a frame that differs from the request: {:?}", f)));
                }
                if let Some(last) = self.last_append_id {
                    if f.id <= last {
                        self.add(finding("ids.monotonic", &["C01"], format!("append returned id {} <= previous {}", f.id, last)));
                    }
                }
                self.last_append_id = Some(f.id);
                *expect_broadcast = Some(vec![f.id]);
                if f.ttl == Some(TTL::Ephemeral) {
                    self.gone.insert(f.id);
                } else {
                    self.note_head_ttl(&f);
                    self.live.insert(
                        f.id,
                        MFrame {
                            frame: f,
                            evictable: false,
                            covered: false,
                            imported: false,
                        },
                    );
                }
            }
            (Ok(f), false) => {
                let (kind, owners): (&str, &[&str]) = if topic.contains('\0') {
                    ("nul.accepted", &["C05"])
                } else {
                    ("ctx.accept", &["C07"])
                };
                self.add(finding(
                    kind,
                    owners,
                    format!(
                        "append of {:?} into context {} succeeded but must be rejected (context usable per stored frames: {})",
                        topic,
                        self.ctx_name(&ctx_id),
                        self.usable(&ctx_id)
                    ),
                ));
                if f.ttl != Some(TTL::Ephemeral) {
                    self.live.insert(f.id, MFrame { frame: f, evictable: false, covered: false, imported: false });
                }
                *expect_broadcast = None;
            }
            (Err(e), true) => {
                self.add(finding(
                    "ctx.accept",
                    &["C07", "C20"],
                    format!(
                        "append into context {} rejected ({}) although its registration frame is stored",
                        self.ctx_name(&ctx_id),
                        e
                    ),
                ));
            }
            (Err(_), false) => {
                let owners: &[&str] = if topic.contains('\0') { &["C05"] } else { &["C07"] };
                self.check_no_trace(before_dump, "rejected append", owners);
            }
        }
    }

    fn check_no_trace(&mut self, before: &xs::verif::Dump, what: &str, owners: &[&str]) {
        let after = self.store().verif_dump();
        if &after != before {
            self.add(finding(
                "reject.trace",
                owners,
                format!("{} changed the store: stream {}->{} idx_topic {}->{} idx_context {}->{} registry {}->{}",
                    what, before.stream.len(), after.stream.len(), before.idx_topic.len(), after.idx_topic.len(),
                    before.idx_context.len(), after.idx_context.len(), before.contexts.len(), after.contexts.len()),
            ));
        }
    }

    // ---- observations --------------------------------------------------------------------

    fn any_expired_present(&self) -> bool {
        self.live.values().any(|m| self.expired(&m.frame))
    }

    /// read-only battery run after every step
    pub fn observe(&mut self) {
        let store = self.store().clone();
        // by-id lookups
        let live: Vec<MFrame> = self.live.values().cloned().collect();
        let dump = store.verif_dump();
        let phys: BTreeSet<Vec<u8>> = dump.stream.iter().map(|(k, _)| k.clone()).collect();
        for m in &live {
            let got = store.get(&m.frame.id);
            let may_absent = m.evictable || self.expired(&m.frame);
            match got {
                Some(g) => {
                    if g != m.frame {
                        self.add(finding("get.content", &["C01", "C12"], format!("get({}) returned {:?}, accepted was {:?}", self.rank_of(&m.frame.id), g, m.frame)));
                    }
                }
                None => {
                    if !may_absent {
                        let mut owners = vec!["C01", "C08"];
                        if m.imported {
                            owners.push("C20");
                        }
                        self.add(finding(
                            "get.missing",
                            &owners,
                            format!("frame {} was accepted, never removed, not expired, not evictable, but get() returns nothing (physically present: {})",
                                self.describe(&m.frame), phys.contains(&m.frame.id.as_bytes().to_vec())),
                        ));
                    }
                }
            }
        }
        // content of every observable frame stays retrievable (other frames may share it)
        for m in &live {
            if let Some(h) = &m.frame.hash {
                if store.get(&m.frame.id).is_some() {
                    if let Err(e) = store.cas_read_sync(h) {
                        self.add(finding("cas.missing", &["C10"], format!("frame {} is observable but its content {} is not retrievable: {}", self.describe(&m.frame), h, e)));
                    }
                }
            }
        }
        for id in self.gone.clone() {
            if let Some(g) = store.get(&id) {
                let owners: &[&str] = if g.ttl == Some(TTL::Ephemeral) {
                    &["C09"]
                } else if matches!(g.ttl, Some(TTL::Time(_))) {
                    &["C09", "C01"]
                } else {
                    &["C01"]
                };
                self.add(finding("get.gone", owners, format!("get() still returns {:?} which was removed / ephemeral / collected", g)));
            }
        }
        // unknown ids in the stream partition
        for (k, _) in &dump.stream {
            let id = Scru128Id::from_bytes(k.as_slice().try_into().unwrap());
            if !self.live.contains_key(&id) {
                let owners: &[&str] = if self.gone.contains(&id) { &["C01", "C09"] } else { &["C01", "C07"] };
                self.add(finding("dump.unknown", owners, format!("stream partition holds id {} ({}) which the model does not expect to exist", id, self.rank_of(&id))));
            }
        }
        // registry == f(stored frames)
        let mut expect_reg: Vec<Scru128Id> = vec![ZERO_CONTEXT];
        for (k, v) in &dump.stream {
            if let Ok(f) = serde_json::from_slice::<Frame>(v) {
                if f.topic == "xs.context" && f.context_id == ZERO_CONTEXT {
                    expect_reg.push(Scru128Id::from_bytes(k.as_slice().try_into().unwrap()));
                }
            }
        }
        expect_reg.sort();
        if dump.contexts != expect_reg {
            self.add(finding(
                "ctx.registry",
                &["C07", "C20"],
                format!(
                    "usable contexts {:?} differ from the registration frames stored {:?}",
                    dump.contexts.iter().map(|c| self.ctx_name(c)).collect::<Vec<_>>(),
                    expect_reg.iter().map(|c| self.ctx_name(c)).collect::<Vec<_>>()
                ),
            ));
        }
        // stored registration frames are kept forever
        for m in &live {
            if m.frame.topic == "xs.context" && m.frame.context_id == ZERO_CONTEXT && !m.imported {
                if let Some(g) = store.get(&m.frame.id) {
                    if g.ttl != Some(TTL::Forever) {
                        self.add(finding("ctx.ttl", &["C07"], format!("stored xs.context frame has ttl {:?}", g.ttl)));
                    }
                }
            }
        }

        // heads + agreement (C05) -- strict in quiescent states
        let quiescent = self.pending_empty() && !self.any_expired_present();
        let all: Vec<Frame> = if quiescent || !self.any_expired_present() {
            store.read_sync(None, None, None).collect()
        } else {
            vec![]
        };
        if quiescent {
            let all_ids: BTreeSet<_> = all.iter().map(|f| f.id).collect();
            let mut ctx_ids: Vec<Scru128Id> = vec![ZERO_CONTEXT, never_ctx()];
            ctx_ids.extend(self.ctxs.iter().cloned());
            let mut per_ctx: BTreeMap<Scru128Id, Vec<Frame>> = BTreeMap::new();
            for c in &ctx_ids {
                per_ctx.insert(*c, store.read_sync(None, None, Some(*c)).collect());
            }
            let ids: Vec<Scru128Id> = self.live.keys().cloned().chain(self.gone.iter().cloned()).collect();
            for id in ids {
                let by_id = store.get(&id);
                let in_all = all_ids.contains(&id);
                let in_ctx = by_id
                    .as_ref()
                    .map(|f| f.context_id)
                    .or_else(|| self.live.get(&id).map(|m| m.frame.context_id))
                    .map(|c| per_ctx.get(&c).map(|v| v.iter().any(|f| f.id == id)).unwrap_or_else(|| store.read_sync(None, None, Some(c)).any(|f| f.id == id)))
                    .unwrap_or(false);
                if by_id.is_some() != in_all || in_all != in_ctx {
                    self.add(finding(
                        "agree.paths",
                        &["C05"],
                        format!("frame {}: by-id={} all-stream={} context-stream={}", self.rank_of(&id), by_id.is_some(), in_all, in_ctx),
                    ));
                }
            }
            let mut topics: BTreeSet<String> = self.cfg.topics.iter().cloned().collect();
            topics.insert("xs.context".into());
            topics.insert("nosuch".into());
            for f in &all {
                topics.insert(f.topic.clone());
            }
            for c in &ctx_ids {
                for t in &topics {
                    if t.contains('\0') {
                        continue;
                    }
                    let h = store.head(t, *c);
                    let want = per_ctx[c].iter().rev().find(|f| &f.topic == t).cloned();
                    if h != want {
                        let mut owners = vec!["C05"];
                        if h.as_ref().map(|f| f.context_id != *c).unwrap_or(false) {
                            owners.push("C06");
                        }
                        self.add(finding(
                            "head.mismatch",
                            &owners,
                            format!(
                                "head({:?}, ctx {}) = {} but the last frame of that topic in the context stream is {}",
                                t,
                                self.ctx_name(c),
                                h.as_ref().map(|f| self.describe(f)).unwrap_or("nothing".into()),
                                want.as_ref().map(|f| self.describe(f)).unwrap_or("nothing".into())
                            ),
                        ));
                    }
                }
            }
            // C09 upper bounds (append-only histories; imports make "newest" ambiguous)
            let no_imports = !self.live.values().any(|m| m.imported);
            if no_imports {
                let mut groups: BTreeMap<(Scru128Id, String), Vec<&Frame>> = BTreeMap::new();
                for f in &all {
                    groups.entry((f.context_id, f.topic.clone())).or_default().push(f);
                }
                for ((c, t), present) in groups {
                    let newest = present.last().unwrap();
                    if let Some(TTL::Head(n)) = newest.ttl {
                        if present.len() > n as usize {
                            self.add(finding(
                                "head_ttl.count",
                                &["C09"],
                                format!("topic {:?} ctx {}: newest frame has head:{} but {} frames remain after the collector drained", t, self.ctx_name(&c), n, present.len()),
                            ));
                        }
                    }
                    // present must be a suffix of the candidates
                    let cands: Vec<Scru128Id> = self
                        .live
                        .values()
                        .filter(|m| m.frame.context_id == c && m.frame.topic == t && !self.expired(&m.frame))
                        .map(|m| m.frame.id)
                        .collect();
                    if let Some(oldest_present) = present.first() {
                        for cid in &cands {
                            if *cid > oldest_present.id && !present.iter().any(|p| p.id == *cid) {
                                self.add(finding(
                                    "head_ttl.suffix",
                                    &["C09", "C08"],
                                    format!("topic {:?} ctx {}: frame {} is gone while the older frame {} survives", t, self.ctx_name(&c), self.rank_of(cid), self.rank_of(&oldest_present.id)),
                                ));
                            }
                        }
                    }
                }
            }
        }
        // time frames covered and drained must be physically gone: handled by promote_collected + dump.unknown

        self.outcome.push(format!(
            "{}|{}|{}",
            dump.stream.len(),
            dump.contexts.len(),
            all.len()
        ));

        if self.cfg.auto_battery && !self.any_expired_present() {
            self.read_battery(false);
        }
    }

    fn check_read(&mut self, path: &str, ctx: Option<Scru128Id>, last: Option<Scru128Id>, limit: Option<usize>, got: &[Frame]) {
        self.reads_done += 1;
        let label = format!(
            "{}(ctx={}, last-id={}, limit={:?})",
            path,
            ctx.map(|c| self.ctx_name(&c)).unwrap_or("all".into()),
            last.map(|l| self.rank_of(&l)).unwrap_or("none".into()),
            limit
        );
        let mut prev: Option<Scru128Id> = None;
        for f in got {
            if let Some(p) = prev {
                if f.id <= p {
                    self.add(finding("read.order", &["C01"], format!("{}: ids not strictly increasing at {}", label, self.describe(f))));
                }
            }
            prev = Some(f.id);
            if let Some(c) = ctx {
                if f.context_id != c {
                    self.add(finding("read.foreign", &["C06", "C01"], format!("{}: returned {} of another context", label, self.describe(f))));
                }
            }
            if let Some(l) = last {
                if f.id <= l {
                    self.add(finding("read.bound", &["C01"], format!("{}: returned {} which is not after last-id", label, self.describe(f))));
                }
            }
            match self.live.get(&f.id) {
                None => {
                    let owners: &[&str] = if matches!(f.ttl, Some(TTL::Time(_))) || f.ttl == Some(TTL::Ephemeral) { &["C01", "C09"] } else { &["C01"] };
                    self.add(finding("read.gone", owners, format!("{}: returned {} which is removed / never stored / collected", label, self.describe(f))));
                }
                Some(m) => {
                    if m.frame != *f {
                        self.add(finding("read.content", &["C01", "C12"], format!("{}: returned {:?}, accepted was {:?}", label, f, m.frame)));
                    }
                    if self.expired(f) {
                        self.add(finding("read.expired", &["C09", "C01"], format!("{}: returned {} whose time TTL has elapsed", label, self.describe(f))));
                    }
                }
            }
        }
        if let Some(l) = limit {
            if got.len() > l {
                self.add(finding("read.limit", &["C01"], format!("{}: returned {} frames", label, got.len())));
            }
        }
        // every Must frame in scope appears unless cut by the limit
        let cut: Option<Scru128Id> = match limit {
            Some(l) if got.len() >= l => got.last().map(|f| f.id),
            _ => None,
        };
        let got_ids: BTreeSet<_> = got.iter().map(|f| f.id).collect();
        let musts: Vec<MFrame> = self
            .live
            .values()
            .filter(|m| !m.evictable && !self.expired(&m.frame))
            .filter(|m| ctx.map(|c| m.frame.context_id == c).unwrap_or(true))
            .filter(|m| last.map(|l| m.frame.id > l).unwrap_or(true))
            .filter(|m| match (limit, cut) {
                (Some(0), _) => false,
                (_, Some(c)) => m.frame.id <= c,
                _ => true,
            })
            .cloned()
            .collect();
        for m in musts {
            if !got_ids.contains(&m.frame.id) {
                let present = self.store().get(&m.frame.id).is_some();
                let mut owners = vec!["C01"];
                if !present {
                    owners.push("C08");
                }
                if m.imported {
                    owners.push("C20");
                }
                self.add(finding("read.missing", &owners, format!("{}: {} is missing (present by id: {})", label, self.describe(&m.frame), present)));
            }
        }
    }

    /// the (ctx, last-id, limit) product on both read paths. `covering`: this is an explicit
    /// ReadBattery operation (it may enqueue lazy-expiry work and covers expired frames).
    pub fn read_battery(&mut self, covering: bool) {
        let store = self.store().clone();
        let mut ctxs: Vec<Option<Scru128Id>> = vec![None, Some(ZERO_CONTEXT), Some(never_ctx())];
        ctxs.extend(self.ctxs.iter().map(|c| Some(*c)));
        let mut lasts: Vec<Option<Scru128Id>> = vec![None];
        for id in self.live.keys() {
            lasts.push(Some(*id));
        }
        if let Some(first) = self.live.keys().next() {
            lasts.push(Some(Scru128Id::from_u128(first.to_u128() + 1)));
            lasts.push(Some(Scru128Id::from_u128(first.to_u128() - 1)));
        }
        let mut limits = vec![None, Some(1usize), Some(2usize)];
        if self.cfg.light_battery {
            lasts.truncate(1);
            limits.truncate(1);
        }
        for c in &ctxs {
            for l in &lasts {
                for lim in &limits {
                    let got: Vec<Frame> = store.read_sync(l.as_ref(), *lim, *c).collect();
                    self.check_read("read_sync", *c, *l, *lim, &got);
                    let opts = ReadOptions::builder()
                        .maybe_last_id(*l)
                        .maybe_limit(*lim)
                        .maybe_context_id(*c)
                        .build();
                    let got: Vec<Frame> = self.rt.block_on(async {
                        let mut rx = store.read(opts).await;
                        let mut v = vec![];
                        while let Some(f) = rx.recv().await {
                            v.push(f);
                        }
                        v
                    });
                    self.check_read("read", *c, *l, *lim, &got);
                }
            }
        }
        if covering {
            let ids: Vec<_> = self.live.values().filter(|m| self.expired(&m.frame)).map(|m| m.frame.id).collect();
            for id in ids {
                self.live.get_mut(&id).unwrap().covered = true;
            }
        }
    }

    // ---- canonical state -----------------------------------------------------------------

    pub fn canon(&self) -> String {
        let store = self.store();
        let dump = store.verif_dump();
        let mut ids: BTreeSet<Scru128Id> = self.live.keys().cloned().collect();
        for (k, _) in &dump.stream {
            ids.insert(Scru128Id::from_bytes(k.as_slice().try_into().unwrap()));
        }
        let ids: Vec<_> = ids.into_iter().collect();
        let rank = |id: &Scru128Id| -> String {
            match ids.iter().position(|x| x == id) {
                Some(r) => r.to_string(),
                None => "x".into(),
            }
        };
        let cname = |c: &Scru128Id| -> String {
            if self.ctxs.contains(c) {
                format!("R{}={}", self.ctxs.iter().position(|x| x == c).unwrap(), rank(c))
            } else {
                self.ctx_name(c)
            }
        };
        let mut adj = vec![];
        let cv: Vec<_> = self.ctxs.iter().collect();
        for w in cv.windows(2) {
            adj.push(w[1].to_u128() - w[0].to_u128() == 1);
        }
        let now = self.now;
        let live: Vec<Value> = self
            .live
            .values()
            .map(|m| {
                let clk = match (Self::expiry(&m.frame), now) {
                    (Some(e), Some(n)) => format!("{:?}", [n.cmp(&(e - 1)), n.cmp(&e), n.cmp(&(e + 1))]),
                    (Some(_), None) => "real".into(),
                    _ => "-".into(),
                };
                let adjacent_next = self
                    .live
                    .contains_key(&Scru128Id::from_u128(m.frame.id.to_u128() + 1));
                json!([rank(&m.frame.id), m.frame.topic, cname(&m.frame.context_id), format!("{:?}", m.frame.ttl), m.frame.meta, m.frame.hash.as_ref().map(|h| h.to_string()), m.evictable, m.covered, m.imported, clk, adjacent_next])
            })
            .collect();
        let stream: Vec<String> = dump
            .stream
            .iter()
            .map(|(k, _)| rank(&Scru128Id::from_bytes(k.as_slice().try_into().unwrap())))
            .collect();
        let dec_ctx = |k: &Vec<u8>| -> String {
            let c = Scru128Id::from_bytes(k[..16].try_into().unwrap());
            let f = Scru128Id::from_bytes(k[k.len() - 16..].try_into().unwrap());
            format!("{}:{}:{}", cname(&c), String::from_utf8_lossy(&k[16..k.len() - 16]), rank(&f))
        };
        let it: Vec<String> = dump.idx_topic.iter().map(dec_ctx).collect();
        let ic: Vec<String> = dump.idx_context.iter().map(dec_ctx).collect();
        let reg: Vec<String> = dump.contexts.iter().map(|c| cname(c)).collect();
        let mut pending = store.verif_hooks().gc_pending();
        for p in pending.iter_mut() {
            // replace ids by ranks
            let parts: Vec<String> = p
                .split(' ')
                .map(|w| match w.parse::<Scru128Id>() {
                    Ok(id) => {
                        if self.ctxs.contains(&id) || id == ZERO_CONTEXT {
                            cname(&id)
                        } else {
                            rank(&id)
                        }
                    }
                    Err(_) => w.to_string(),
                })
                .collect();
            *p = parts.join(" ");
        }
        let mink: Vec<String> = self
            .min_k
            .iter()
            .filter(|(k, _)| self.live.values().any(|m| m.frame.context_id == k.0 && m.frame.topic == k.1))
            .map(|(k, v)| format!("{}:{}:{}", cname(&k.0), k.1, v))
            .collect();
        json!({
            "live": live, "stream": stream, "it": it, "ic": ic, "reg": reg, "pending": pending,
            "mink": mink, "flushed": self.flushed, "reopened": self.reopened, "adj": adj,
            "ctxs": self.ctxs.iter().map(|c| (rank(c), self.usable(c))).collect::<Vec<_>>(),
            "clock_set": self.now.is_some(),
        })
        .to_string()
    }
}

fn self_gone_note(n: Scru128Id) -> Scru128Id {
    Scru128Id::from_u128(n.to_u128() - (1u128 << 90))
}

/// Run a history on a fresh store; returns (findings, canon, exec stats).
pub struct RunResult {
    pub findings: Vec<Finding>,
    pub canon: String,
    pub menu: Vec<Op>,
    pub reads: u64,
    pub outcome: String,
}

pub fn run_history(cfg: Config, history: &[Op], menu_fn: &dyn Fn(&Exec) -> Vec<Op>) -> RunResult {
    let mut e = Exec::new(cfg);
    let pre = e.cfg.preseed.clone();
    for op in &pre {
        e.apply(op, false);
    }
    if history.is_empty() {
        e.observe();
    }
    for (i, op) in history.iter().enumerate() {
        e.apply(op, i + 1 == history.len());
    }
    let canon = e.canon();
    let menu = menu_fn(&e);
    if let Some(extra) = e.cfg.extra {
        if e.findings.is_empty() {
            let fs = extra(&mut e);
            e.findings.extend(fs);
        }
    }
    if e.cfg.settle_lookahead && e.findings.is_empty() {
        let n0 = e.findings.len();
        if e.live.values().any(|m| e.expired(&m.frame) && !m.covered) {
            e.apply(&Op::ReadBattery, true);
        }
        if !e.store().verif_hooks().gc_pending().is_empty() {
            e.apply(&Op::GcRun, true);
        }
        for f in e.findings.iter_mut().skip(n0) {
            f.msg = format!("(after the look-ahead suffix [ReadBattery?; GcRun]) {}", f.msg);
        }
    }
    let res = RunResult {
        findings: std::mem::take(&mut e.findings),
        canon,
        menu,
        reads: e.reads_done,
        outcome: e.outcome.join(","),
    };
    e.finish();
    res
}
