//! E6: bounded exhaustive input enumerations (TTL grammar, ReadOptions, query strings, frames)
//! pushed through the real parsers and the real HTTP boundary. C12.
use std::collections::HashSet;
use std::time::Duration;

use base64::Engine as _;
use scru128::Scru128Id;
use serde_json::{json, Value};

use xs::store::{FollowOption, Frame, ReadOptions, TTL, ZERO_CONTEXT};

use crate::common::{self, Report, Violation};
use crate::http::{Conn, Req, Server};

pub struct F {
    pub kind: String,
    pub msg: String,
}

fn pct(s: &str) -> String {
    let mut o = String::new();
    for b in s.bytes() {
        if b.is_ascii_alphanumeric() || b == b'-' || b == b'_' || b == b'.' {
            o.push(b as char);
        } else {
            o.push_str(&format!("%{:02X}", b));
        }
    }
    o
}

pub const TTL_TOKENS: &[&str] = &[
    "forever", "ephemeral", "time:", "head:", "0", "1", "9", "-1", "+1", "4294967295", "4294967296", "18446744073709551615",
    "18446744073709551616", " ", ":", "x", "",
];

pub fn ttl_strings() -> Vec<String> {
    let mut set: std::collections::BTreeSet<String> = Default::default();
    for a in TTL_TOKENS {
        set.insert(a.to_string());
        for b in TTL_TOKENS {
            set.insert(format!("{}{}", a, b));
            for c in TTL_TOKENS {
                set.insert(format!("{}{}{}", a, b, c));
            }
        }
    }
    set.into_iter().collect()
}

/// the malformed classes the statement names: must be rejected
fn ttl_must_reject(s: &str) -> Option<&'static str> {
    if s == "head:0" {
        return Some("head:0");
    }
    for (p, max) in [("time:", u64::MAX as u128), ("head:", u32::MAX as u128)] {
        if let Some(n) = s.strip_prefix(p) {
            if n.starts_with('-') {
                return Some("negative number");
            }
            let digits = n.strip_prefix('+').unwrap_or(n);
            if !digits.is_empty() && digits.chars().all(|c| c.is_ascii_digit()) {
                if let Ok(v) = digits.parse::<u128>() {
                    if v > max {
                        return Some("overflowing number");
                    }
                } else {
                    return Some("overflowing number");
                }
            }
            return None;
        }
    }
    if s != "forever" && s != "ephemeral" {
        return Some("unknown keyword");
    }
    None
}

/// Part 1: every TTL string through parse_ttl, both spellings, and POST /a?ttl=...
pub fn sweep_ttl(strings: &[String]) -> (Vec<F>, usize, usize) {
    let mut fs = vec![];
    let dir = common::scratch_dir("e6");
    let server = Server::start(dir);
    let mut conn = Conn::open(&server.sock).expect("connect");
    let mut accepted = 0;
    let mut rejected = 0;
    for s in strings {
        let parsed = xs::store::parse_ttl(s);
        if let (Ok(t), Some(class)) = (&parsed, ttl_must_reject(s)) {
            fs.push(F { kind: "ttl.accepts_malformed".into(), msg: format!("TTL string {:?} ({}) is accepted as {:?}", s, class, t) });
        }
        if let Ok(t) = &parsed {
            // JSON spelling
            match serde_json::to_string(t).ok().and_then(|j| serde_json::from_str::<TTL>(&j).ok()) {
                Some(back) if &back == t => {}
                other => fs.push(F { kind: "ttl.json_roundtrip".into(), msg: format!("TTL {:?} -> JSON {:?} -> {:?}", t, serde_json::to_string(t).ok(), other) }),
            }
            // query spelling
            match TTL::from_query(Some(&t.to_query())) {
                Ok(back) if &back == t => {}
                other => fs.push(F { kind: "ttl.query_roundtrip".into(), msg: format!("TTL {:?} -> query {:?} -> {:?}", t, t.to_query(), other) }),
            }
        }
        // the HTTP boundary must agree with the parser and store exactly what was parsed
        let before = stream_ids(&server);
        let r = conn.roundtrip(&Req::new("POST", &format!("/t?ttl={}", pct(s))), None);
        if r.status == 0 {
            fs.push(F { kind: "ttl.no_response".into(), msg: format!("POST with ttl={:?}: no response", s) });
            conn = Conn::open(&server.sock).expect("connect");
            continue;
        }
        let after = stream_ids(&server);
        match &parsed {
            Ok(t) => {
                accepted += 1;
                if r.status != 200 {
                    fs.push(F { kind: "ttl.boundary".into(), msg: format!("ttl={:?} parses as {:?} but POST answered {}", s, t, r.status) });
                } else {
                    match serde_json::from_slice::<Frame>(&r.body) {
                        Ok(f) => {
                            if f.ttl.as_ref() != Some(t) {
                                fs.push(F { kind: "ttl.boundary".into(), msg: format!("ttl={:?}: response frame carries {:?}, parser says {:?}", s, f.ttl, t) });
                            }
                            if *t != TTL::Ephemeral {
                                match server.store.get(&f.id) {
                                    Some(g) if g.ttl.as_ref() == Some(t) => {}
                                    other => fs.push(F { kind: "ttl.stored".into(), msg: format!("ttl={:?}: stored frame {:?}", s, other.map(|g| g.ttl)) }),
                                }
                            }
                        }
                        Err(e) => fs.push(F { kind: "ttl.boundary".into(), msg: format!("ttl={:?}: undecodable response {}", s, e) }),
                    }
                }
            }
            Err(_) => {
                rejected += 1;
                if r.status / 100 != 4 {
                    fs.push(F { kind: "ttl.boundary".into(), msg: format!("ttl={:?} does not parse but POST answered {}", s, r.status) });
                }
                if !after.is_subset(&before) {
                    fs.push(F { kind: "ttl.stored_malformed".into(), msg: format!("rejected ttl={:?} left a frame behind", s) });
                }
            }
        }
    }
    // everything stored is still readable on every path
    readable_everywhere(&server, &mut fs, "after the TTL sweep");
    server.stop();
    (fs, accepted, rejected)
}

fn stream_ids(server: &Server) -> std::collections::BTreeSet<Vec<u8>> {
    server.store.verif_dump().stream.into_iter().map(|(k, _)| k).collect()
}

fn readable_everywhere(server: &Server, fs: &mut Vec<F>, when: &str) {
    let store = server.store.clone();
    server.rt.block_on(store.wait_for_gc());
    // frames with time / head TTLs may legitimately vanish between two reads; the stable ones
    // must be returned by every path, and every path must work at all
    let stable = |f: &Frame| matches!(f.ttl, None | Some(TTL::Forever));
    let r = std::panic::catch_unwind(std::panic::AssertUnwindSafe(|| {
        let v: Vec<Frame> = store.read_sync(None, None, None).collect();
        for f in &v {
            let g = store.get(&f.id);
            if g.as_ref() != Some(f) && stable(f) {
                return Err(format!("get({}) = {:?} differs from the stream's {:?}", f.id, g, f));
            }
            let j = serde_json::to_string(f).map_err(|e| e.to_string())?;
            let back: Frame = serde_json::from_str(&j).map_err(|e| format!("stored frame does not re-parse: {} :: {}", e, j.chars().take(200).collect::<String>()))?;
            if &back != f {
                return Err(format!("frame changes in a JSON round trip: {:?} -> {:?}", f, back));
            }
        }
        Ok(v)
    }));
    let base: Vec<Frame> = match r {
        Ok(Ok(v)) => v,
        Ok(Err(e)) => {
            fs.push(F { kind: "frame.roundtrip".into(), msg: format!("{}: {}", when, e) });
            return;
        }
        Err(p) => {
            let msg = p.downcast_ref::<String>().cloned().or_else(|| p.downcast_ref::<&str>().map(|s| s.to_string())).unwrap_or_default();
            fs.push(F { kind: "read.panic".into(), msg: format!("{}: reading the store panics: {}", when, msg.chars().take(300).collect::<String>()) });
            return;
        }
    };
    let want: Vec<Scru128Id> = base.iter().filter(|f| stable(f)).map(|f| f.id).collect();
    // the async path and the HTTP rendering
    let st2 = server.store.clone();
    let asyncv = std::panic::catch_unwind(std::panic::AssertUnwindSafe(|| {
        server.rt.block_on(async move {
            let mut rx = st2.read(ReadOptions::default()).await;
            let mut v = vec![];
            while let Some(f) = rx.recv().await {
                v.push(f);
            }
            v
        })
    }));
    match asyncv {
        Ok(v) => {
            let got: Vec<Scru128Id> = v.iter().filter(|f| stable(f)).map(|f| f.id).collect();
            if got != want {
                fs.push(F { kind: "read.panic".into(), msg: format!("{}: Store::read delivered {} of {} stable frames (history thread died?)", when, got.len(), want.len()) });
            }
        }
        Err(_) => fs.push(F { kind: "read.panic".into(), msg: format!("{}: Store::read panics", when) }),
    }
    let r = crate::http::once(&server.sock, &Req::new("GET", "/"));
    let got: Vec<Scru128Id> = r
        .body
        .split(|b| *b == b'\n')
        .filter(|l| !l.is_empty())
        .filter_map(|l| serde_json::from_slice::<Frame>(l).ok())
        .filter(|f| stable(f))
        .map(|f| f.id)
        .collect();
    if r.status != 200 || got != want {
        fs.push(F { kind: "read.panic".into(), msg: format!("{}: GET / answered {} with {} of {} stable frames", when, r.status, got.len(), want.len()) });
    }
}

/// Part 2: ReadOptions values and query strings
pub fn sweep_read_options() -> (Vec<F>, usize, usize) {
    let mut fs = vec![];
    let id = Scru128Id::from_u128((7u128 << 80) | 0xabcdef);
    let follows = vec![
        FollowOption::Off,
        FollowOption::On,
        FollowOption::WithHeartbeat(Duration::from_millis(0)),
        FollowOption::WithHeartbeat(Duration::from_millis(1)),
        FollowOption::WithHeartbeat(Duration::from_millis(999)),
        FollowOption::WithHeartbeat(Duration::from_millis(1000)),
        FollowOption::WithHeartbeat(Duration::from_millis(1500)),
        FollowOption::WithHeartbeat(Duration::from_millis(1 << 53)),
    ];
    let mut n_values = 0;
    for f in &follows {
        for tail in [false, true] {
            for last in [None, Some(id)] {
                for limit in [None, Some(0usize), Some(1), Some(usize::MAX)] {
                    for ctx in [None, Some(id), Some(ZERO_CONTEXT)] {
                        n_values += 1;
                        let o = ReadOptions::builder().follow(f.clone()).tail(tail).maybe_last_id(last).maybe_limit(limit).maybe_context_id(ctx).build();
                        let q = o.to_query_string();
                        let back = ReadOptions::from_query(if q.is_empty() { None } else { Some(&q) });
                        match back {
                            Ok(b) if b == o => {}
                            other => fs.push(F { kind: "options.roundtrip".into(), msg: format!("{:?} -> {:?} -> {:?}", o, q, other.map_err(|e| e.to_string())) }),
                        }
                        // and with the empty string spelled explicitly
                        if q.is_empty() {
                            match ReadOptions::from_query(Some("")) {
                                Ok(b) if b == o => {}
                                other => fs.push(F { kind: "options.roundtrip".into(), msg: format!("default options via empty query -> {:?}", other.map_err(|e| e.to_string())) }),
                            }
                        }
                    }
                }
            }
        }
    }
    // query strings: all combinations of <= 3 pairs with distinct keys
    let ids = id.to_string();
    let alphabet: Vec<(&str, Vec<String>, Vec<String>)> = vec![
        // key, valid values, malformed values
        ("follow", vec!["".into(), "yes".into(), "no".into(), "true".into(), "false".into(), "7".into(), "0".into()], vec!["x".into(), "-1".into(), "1.5".into(), "18446744073709551616".into()]),
        ("tail", vec!["".into(), "0".into(), "no".into(), "x".into(), "true".into(), "false".into()], vec![]),
        ("last-id", vec![ids.clone()], vec!["zzz".into(), "".into(), format!("{}0", ids)]),
        ("limit", vec!["0".into(), "1".into(), "18446744073709551615".into()], vec!["-1".into(), "x".into(), "".into(), "18446744073709551616".into(), "1.0".into()]),
        ("context-id", vec![ids.clone(), "0000000000000000000000000".into()], vec!["12345".into(), "".into()]),
    ];
    let mut pairs: Vec<(String, String, bool)> = vec![];
    for (k, good, bad) in &alphabet {
        for v in good {
            pairs.push((k.to_string(), v.clone(), true));
        }
        for v in bad {
            pairs.push((k.to_string(), v.clone(), false));
        }
    }
    let mut n_queries = 0;
    let mut check = |sel: &[&(String, String, bool)], fs: &mut Vec<F>| {
        let q: String = sel.iter().map(|(k, v, _)| if v.is_empty() && k == "follow" { k.clone() } else { format!("{}={}", k, pct(v)) }).collect::<Vec<_>>().join("&");
        let all_good = sel.iter().all(|(_, _, g)| *g);
        let r = ReadOptions::from_query(Some(&q));
        match (&r, all_good) {
            (Ok(v), true) => {
                let q2 = v.to_query_string();
                let back = ReadOptions::from_query(if q2.is_empty() { None } else { Some(&q2) });
                match back {
                    Ok(b) if &b == v => {}
                    other => fs.push(F { kind: "options.roundtrip".into(), msg: format!("query {:?} parses to {:?}, re-encoded {:?} parses to {:?}", q, v, q2, other.map_err(|e| e.to_string())) }),
                }
            }
            (Err(e), true) => fs.push(F { kind: "options.rejects_valid".into(), msg: format!("well-formed query {:?} rejected: {}", q, e) }),
            (Ok(v), false) => {
                let which: Vec<String> = sel.iter().filter(|(_, _, g)| !*g).map(|(k, v, _)| format!("{}={:?}", k, v)).collect();
                fs.push(F { kind: "options.accepts_malformed".into(), msg: format!("query {:?} with malformed {} accepted as {:?}", q, which.join(","), v) });
            }
            (Err(_), false) => {}
        }
    };
    for a in 0..pairs.len() {
        n_queries += 1;
        check(&[&pairs[a]], &mut fs);
        for b in 0..pairs.len() {
            if pairs[b].0 == pairs[a].0 {
                continue;
            }
            n_queries += 1;
            check(&[&pairs[a], &pairs[b]], &mut fs);
            for c in 0..pairs.len() {
                if pairs[c].0 == pairs[a].0 || pairs[c].0 == pairs[b].0 {
                    continue;
                }
                if c % 3 != 0 && !(pairs[c].2 ^ pairs[a].2) {
                    // thin the third dimension: keep every third value plus all good/bad mixes
                    continue;
                }
                n_queries += 1;
                check(&[&pairs[a], &pairs[b], &pairs[c]], &mut fs);
            }
        }
    }
    (fs, n_values, n_queries)
}

/// Part 2b: the real client (`xs::client`) talking to the real server: options, TTLs, meta,
/// context and content must arrive exactly as sent.
pub fn sweep_client() -> (Vec<F>, usize, usize) {
    let mut fs = vec![];
    let dir = common::scratch_dir("e6c");
    let server = Server::start(dir);
    let addr = server.dir.to_string_lossy().to_string();
    let store = server.store.clone();
    let ctx = store.append(Frame::builder("xs.context", ZERO_CONTEXT).build()).unwrap().id;
    let mut n_app = 0;
    let ttls: Vec<Option<TTL>> = vec![
        None,
        Some(TTL::Forever),
        Some(TTL::Time(Duration::from_millis(1))),
        Some(TTL::Time(Duration::from_millis(3_600_000))),
        Some(TTL::Time(Duration::from_millis(u64::MAX))),
        Some(TTL::Head(1)),
        Some(TTL::Head(u32::MAX)),
    ];
    let metas: Vec<Option<Value>> = vec![
        None,
        Some(json!({"a": 1})),
        Some(json!({"u": "h\u{e9}llo \u{1F600}", "n": [1.5, -0.0, 18446744073709551615u64, null, true], "nested": {"k": {"k": []}}})),
        Some(json!("just a string")),
        Some(json!([1, 2, 3])),
        Some(serde_json::from_str(&nested(100, true)).unwrap()),
    ];
    // metas whose header encoding exercises the whole base64 alphabet (symbols 62 and 63, every
    // padding length) and multi-byte characters at every alignment
    let mut metas = metas;
    let printable: String = (0x20u8..0x7f).map(|b| b as char).collect();
    for pre in ["", "a", "ab"] {
        metas.push(Some(json!({"k": format!("{}~~~???>>>{}", pre, printable)})));
        metas.push(Some(json!({"k": format!("{}\u{fb}\u{ff}\u{3ff}\u{fbf}\u{ffff}\u{65e5}\u{1F600}", pre)})));
    }
    {
        use base64::Engine as _;
        let mut seen = std::collections::BTreeSet::new();
        for m in metas.iter().flatten() {
            seen.extend(base64::prelude::BASE64_STANDARD.encode(m.to_string()).chars());
        }
        assert!(seen.len() == 65, "harness: the meta family covers only {} of the 65 base64 characters", seen.len());
    }
    for (mi, ttl) in ttls.iter().enumerate() {
        for (mj, meta) in metas.iter().enumerate() {
            // the alphabet family once per ttl kind is enough
            if mj >= 6 && mi > 1 {
                continue;
            }
            for c in [None, Some(ctx)] {
                for body in [&b""[..], &b"content \xff bytes"[..]] {
                    n_app += 1;
                    let cs = c.map(|x| x.to_string());
                    let topic = "cl\u{e9}";
                    let data = std::io::Cursor::new(body.to_vec());
                    let r = server.rt.block_on(xs::client::append(&addr, "cli", data, meta.as_ref(), ttl.clone(), cs.as_deref()));
                    let _ = topic;
                    let label = format!("client append ttl={:?} meta={} ctx={:?} body={}B", ttl, meta.as_ref().map(|m| m.to_string().chars().take(30).collect::<String>()).unwrap_or("-".into()), cs.is_some(), body.len());
                    match r {
                        Err(e) => fs.push(F { kind: "client.append_failed".into(), msg: format!("{}: {}", label, e) }),
                        Ok(bytes) => match serde_json::from_slice::<Frame>(&bytes) {
                            Err(e) => fs.push(F { kind: "client.append_failed".into(), msg: format!("{}: undecodable answer {}", label, e) }),
                            Ok(f) => {
                                let want_ttl = ttl.clone().unwrap_or(TTL::Forever);
                                let stored = store.get(&f.id);
                                let got_content = f.hash.as_ref().and_then(|h| store.cas_read_sync(h).ok());
                                let content_ok = if body.is_empty() { f.hash.is_none() } else { got_content.as_deref() == Some(body) };
                                if f.topic != "cli" || f.context_id != c.unwrap_or(ZERO_CONTEXT) || f.ttl != Some(want_ttl.clone()) || &f.meta != meta || stored.as_ref() != Some(&f) || !content_ok {
                                    fs.push(F { kind: "client.trip".into(), msg: format!("{}: arrived as topic {:?} ctx {} ttl {:?} meta {:?} (stored identically: {}, content ok: {})", label, f.topic, f.context_id, f.ttl, f.meta, stored.as_ref() == Some(&f), content_ok) });
                                }
                            }
                        },
                    }
                }
            }
        }
    }
    // reads: every non-following option combination through the client
    let all: Vec<Frame> = store.read_sync(None, None, None).collect();
    let mid = all[all.len() / 2].id;
    let mut n_cat = 0;
    for tail in [false, true] {
        for last in [None, Some(mid)] {
            for limit in [None, Some(0usize), Some(1), Some(3), Some(usize::MAX)] {
                for c in [None, Some(ctx), Some(ZERO_CONTEXT)] {
                    for sse in [false, true] {
                        n_cat += 1;
                        let o = ReadOptions::builder().tail(tail).maybe_last_id(last).maybe_limit(limit).maybe_context_id(c).build();
                        let label = format!("client cat {:?} sse={}", o, sse);
                        let st = store.clone();
                        let o2 = o.clone();
                        let want: Vec<Frame> = server.rt.block_on(async move {
                            let mut rx = st.read(o2).await;
                            let mut v = vec![];
                            while let Some(f) = rx.recv().await {
                                v.push(f);
                            }
                            v
                        });
                        let addr2 = addr.clone();
                        let got: Result<Vec<u8>, String> = server.rt.block_on(async move {
                            let mut rx = xs::client::cat(&addr2, o, sse).await.map_err(|e| e.to_string())?;
                            let mut v = vec![];
                            while let Some(b) = rx.recv().await {
                                v.extend_from_slice(&b);
                            }
                            Ok(v)
                        });
                        match got {
                            Err(e) => fs.push(F { kind: "client.cat_failed".into(), msg: format!("{}: {}", label, e) }),
                            Ok(bytes) => {
                                let text = String::from_utf8_lossy(&bytes).to_string();
                                let frames: Vec<Frame> = text
                                    .lines()
                                    .filter(|l| !l.is_empty() && !l.starts_with("id: "))
                                    .filter_map(|l| serde_json::from_str(l.strip_prefix("data: ").unwrap_or(l)).ok())
                                    .collect();
                                if frames != want {
                                    fs.push(F { kind: "client.trip".into(), msg: format!("{}: the client received {} frames, Store::read with the same options returns {}", label, frames.len(), want.len()) });
                                }
                            }
                        }
                    }
                }
            }
        }
    }
    server.stop();
    (fs, n_app, n_cat)
}

fn nested(depth: usize, array: bool) -> String {
    let (o, c) = if array { ("[", "]") } else { ("{\"k\":", "}") };
    let mut s = String::new();
    for _ in 0..depth {
        s.push_str(o);
    }
    s.push('1');
    for _ in 0..depth {
        s.push_str(c);
    }
    s
}

pub fn meta_texts() -> Vec<(String, String)> {
    let mut v: Vec<(String, String)> = vec![];
    let mut add = |n: &str, t: String| v.push((n.to_string(), t));
    for (n, t) in [
        ("null", "null"), ("true", "true"), ("zero", "0"), ("negzero", "-0.0"), ("i64max", "9223372036854775807"), ("i64max+1", "9223372036854775808"),
        ("i64min", "-9223372036854775808"), ("i64min-1", "-9223372036854775809"), ("u64max", "18446744073709551615"), ("u64max+1", "18446744073709551616"),
        ("1e308", "1e308"), ("1e309", "1e309"), ("tiny", "5e-324"), ("str", "\"plain\""), ("escapes", "\"a\\\"b\\\\c\\n\\t\\u0000\\u001f/\""),
        ("astral", "\"\\ud83d\\ude00 😀\""), ("lone-surrogate", "\"\\ud800\""), ("empty-obj", "{}"), ("empty-arr", "[]"),
        ("dup-keys", "{\"a\":1,\"a\":2}"), ("obj", "{\"handler_id\":\"x\",\"frame_id\":1,\"n\":[1,2,{\"z\":null}]}"), ("unicode-key", "{\"日\\u0000\":1}"),
        ("not-json", "{oops"), ("trailing", "1 2"),
    ] {
        add(n, t.to_string());
    }
    for d in [1usize, 60, 125, 126, 127, 128, 129, 200] {
        add(&format!("arr-depth-{}", d), nested(d, true));
        add(&format!("obj-depth-{}", d), nested(d, false));
    }
    v
}

/// Part 3: frames through POST /{topic} (xs-meta) and POST /import
pub fn sweep_frames(chunk: usize, of: usize) -> (Vec<F>, usize, usize) {
    let mut fs = vec![];
    let dir = common::scratch_dir("e6");
    let server = Server::start(dir);
    let metas = meta_texts();
    let mut accepted = 0;
    let mut rejected = 0;
    let topics = ["a", "", "a%01", "%E6%97%A5", "xs.context"];
    let mut n = 0usize;
    // (a) append with xs-meta
    for (mn, mt) in &metas {
        for (ti, topic) in topics.iter().enumerate() {
            if ti > 0 && !(mn.contains("depth-12") || mn == "obj") {
                continue;
            }
            n += 1;
            if n % of != chunk {
                continue;
            }
            let valid = serde_json::from_str::<Value>(mt);
            let req = Req::new("POST", &format!("/{}", topic)).header("xs-meta", base64::prelude::BASE64_STANDARD.encode(mt).as_bytes());
            let before = stream_ids(&server);
            let r = crate::http::once(&server.sock, &req);
            if r.status == 0 {
                fs.push(F { kind: "frame.no_response".into(), msg: format!("POST /{} with xs-meta {}: no response", topic, mn) });
                continue;
            }
            if r.status == 200 {
                accepted += 1;
                if valid.is_err() {
                    fs.push(F { kind: "frame.accepts_malformed".into(), msg: format!("xs-meta {} ({}) accepted", mn, mt.chars().take(40).collect::<String>()) });
                }
                if let Ok(f) = serde_json::from_slice::<Frame>(&r.body) {
                    // `"meta": null` and an absent meta are the same JSON-observable frame
                    let sent = valid.as_ref().ok().filter(|v| !v.is_null());
                    if sent != f.meta.as_ref() {
                        fs.push(F { kind: "frame.roundtrip".into(), msg: format!("xs-meta {}: stored meta differs from what was sent", mn) });
                    }
                }
                readable_everywhere(&server, &mut fs, &format!("after POST /{} with xs-meta {}", topic, mn));
                if fs.iter().any(|f| f.kind == "read.panic") {
                    // the store is poisoned; stop using it
                    server.stop();
                    return (fs, accepted, rejected);
                }
            } else {
                rejected += 1;
                if r.status / 100 != 4 && valid.is_err() {
                    fs.push(F { kind: "frame.status".into(), msg: format!("malformed xs-meta {} answered {}", mn, r.status) });
                }
                let after = stream_ids(&server);
                if !after.is_subset(&before) {
                    fs.push(F { kind: "frame.stored_malformed".into(), msg: format!("rejected xs-meta {} left a frame behind", mn) });
                }
            }
        }
    }
    // (b) import of whole frames: topic x hash x ttl x meta
    let hashes: Vec<(&str, Option<String>, bool)> = vec![
        ("none", None, true),
        ("sha256", Some("sha256-47DEQpj8HBSa+/TImW+5JCeuQeRkm5NMpJWZG3hSuFU=".into()), true),
        ("multi", Some("sha256-47DEQpj8HBSa+/TImW+5JCeuQeRkm5NMpJWZG3hSuFU= sha512-z4PhNX7vuL3xVChQ1m2AB9Yg5AULVxXcg/SpIdNs6c5H0NE8XYXysP+DGNKHfuwvY7kxvUdBeoGlODJ6+SfaPg==".into()), true),
        ("options", Some("sha256-47DEQpj8HBSa+/TImW+5JCeuQeRkm5NMpJWZG3hSuFU=?foo".into()), true),
        ("notbase64", Some("sha256-***".into()), true),
        ("number", Some("17".into()), false),
    ];
    let ttls: Vec<(&str, Value, bool)> = vec![
        ("absent", Value::Null, true),
        ("forever", json!("forever"), true),
        ("time", json!("time:3600000"), true),
        ("time-max", json!("time:18446744073709551615"), true),
        ("head", json!("head:4294967295"), true),
        ("head0", json!("head:0"), false),
        ("neg", json!("time:-1"), false),
        ("bogus", json!("bogus"), false),
        ("number", json!(5), false),
    ];
    let itopics: Vec<(&str, bool)> = vec![("a", true), ("", true), ("a\u{1}", true), ("a\u{ff}", true), ("日", true), ("a\0b", false)];
    let imetas: Vec<&(String, String)> = metas.iter().filter(|(n, _)| ["null", "u64max+1", "negzero", "escapes", "astral", "obj", "dup-keys", "arr-depth-126", "arr-depth-127", "obj-depth-126", "obj-depth-127", "not-json", "lone-surrogate"].contains(&n.as_str())).collect();
    let mut idn: u128 = (9u128 << 80) | 1;
    for (tn, tok) in &itopics {
        for (hn, h, hok) in &hashes {
            for (ln, l, lok) in &ttls {
                for (mn, mt) in &imetas {
                    // thin: vary one dimension at a time around the base point, plus all pairs with the topic
                    let base = (*hn == "none") as u8 + (*ln == "absent") as u8 + (mn == "null") as u8;
                    if base < 2 {
                        continue;
                    }
                    n += 1;
                    if n % of != chunk {
                        continue;
                    }
                    idn += 1 << 40;
                    let id = Scru128Id::from_u128(idn + n as u128);
                    let mut body = format!("{{\"topic\":{},\"context_id\":\"0000000000000000000000000\",\"id\":\"{}\"", serde_json::to_string(tn).unwrap(), id);
                    if let Some(h) = h {
                        if *hok {
                            body.push_str(&format!(",\"hash\":{}", serde_json::to_string(h).unwrap()));
                        } else {
                            body.push_str(&format!(",\"hash\":{}", h));
                        }
                    }
                    if !l.is_null() {
                        body.push_str(&format!(",\"ttl\":{}", l));
                    }
                    body.push_str(&format!(",\"meta\":{}}}", mt));
                    let whole_valid = serde_json::from_str::<Frame>(&body).is_ok();
                    let before = stream_ids(&server);
                    let r = crate::http::once(&server.sock, &Req::new("POST", "/import").body(body.as_bytes()));
                    let label = format!("import topic={:?} hash={} ttl={} meta={}", tn, hn, ln, mn);
                    if r.status == 0 {
                        fs.push(F { kind: "frame.no_response".into(), msg: format!("{}: no response", label) });
                        continue;
                    }
                    if r.status == 200 {
                        accepted += 1;
                        if !tok || !lok {
                            fs.push(F { kind: "frame.accepts_malformed".into(), msg: format!("{} accepted", label) });
                        }
                        match server.store.get(&id) {
                            Some(f) => {
                                let sent: Frame = serde_json::from_str(&body).expect("accepted body parses");
                                if serde_json::to_value(&f).unwrap() != serde_json::to_value(&sent).unwrap() {
                                    fs.push(F { kind: "frame.roundtrip".into(), msg: format!("{}: stored {:?} differs from sent {:?}", label, f, sent) });
                                }
                            }
                            None => fs.push(F { kind: "frame.roundtrip".into(), msg: format!("{}: accepted but not readable by id", label) }),
                        }
                        readable_everywhere(&server, &mut fs, &format!("after {}", label));
                        if fs.iter().any(|f| f.kind == "read.panic") {
                            server.stop();
                            return (fs, accepted, rejected);
                        }
                    } else {
                        rejected += 1;
                        if whole_valid && *tok && *lok {
                            fs.push(F { kind: "frame.rejects_valid".into(), msg: format!("{} rejected with {} {:?}", label, r.status, String::from_utf8_lossy(&r.body).chars().take(80).collect::<String>()) });
                        }
                        if !stream_ids(&server).is_subset(&before) {
                            fs.push(F { kind: "frame.stored_malformed".into(), msg: format!("rejected {} left a frame behind", label) });
                        }
                    }
                }
            }
        }
    }
    server.stop();
    (fs, accepted, rejected)
}

/// Part 5: frames built as Rust values (TTL values that no string spells, with and without a
/// meta) through the library entry points `Store::append` and `Store::insert_frame`: whatever is
/// accepted must stay readable on every path and across a reopen; whatever is refused leaves
/// nothing behind.
pub fn api_cases() -> Vec<(String, Option<TTL>, Option<Value>, bool)> {
    let ttls: Vec<(&str, Option<TTL>)> = vec![
        ("absent", None),
        ("forever", Some(TTL::Forever)),
        ("time-0", Some(TTL::Time(Duration::from_millis(0)))),
        ("time-1500us", Some(TTL::Time(Duration::from_micros(1500)))),
        ("time-1h", Some(TTL::Time(Duration::from_secs(3600)))),
        ("time-u64max-ms", Some(TTL::Time(Duration::from_millis(u64::MAX)))),
        ("time-u64max-ms+1ms", Some(TTL::Time(Duration::from_millis(u64::MAX) + Duration::from_millis(1)))),
        ("time-u64max-s", Some(TTL::Time(Duration::from_secs(u64::MAX)))),
        ("time-max", Some(TTL::Time(Duration::MAX))),
        ("head-0", Some(TTL::Head(0))),
        ("head-1", Some(TTL::Head(1))),
        ("head-u32max", Some(TTL::Head(u32::MAX))),
    ];
    let metas: Vec<(&str, Option<Value>)> = vec![("none", None), ("null", Some(Value::Null)), ("obj", Some(json!({"k": 1}))), ("f64-nan-like", Some(json!({"k": 1.0e308})))];
    let mut out = vec![];
    for (tn, t) in &ttls {
        for (mn, m) in &metas {
            for insert in [false, true] {
                out.push((format!("{} ttl={} meta={}", if insert { "insert_frame" } else { "append" }, tn, mn), t.clone(), m.clone(), insert));
            }
        }
    }
    out
}

pub fn sweep_api(chunk: usize, of: usize) -> (Vec<F>, usize, usize) {
    use xs::store::Store;
    let mut fs = vec![];
    let (mut accepted, mut rejected) = (0usize, 0usize);
    let rt = tokio::runtime::Builder::new_current_thread().enable_all().build().unwrap();
    let msg_of = |p: Box<dyn std::any::Any + Send>| p.downcast_ref::<String>().cloned().or_else(|| p.downcast_ref::<&str>().map(|s| s.to_string())).unwrap_or_default().chars().take(200).collect::<String>();
    for (i, (label, ttl, meta, insert)) in api_cases().into_iter().enumerate() {
        if i % of != chunk {
            continue;
        }
        let dir = common::scratch_dir("e6api");
        let store = Store::new(dir.clone());
        let base = store.append(Frame::builder("base", ZERO_CONTEXT).build()).expect("harness append");
        let before = store.verif_dump();
        let mut frame = Frame::builder("t", ZERO_CONTEXT).maybe_ttl(ttl.clone()).maybe_meta(meta.clone()).build();
        if insert {
            frame.id = scru128::new();
        }
        let res = std::panic::catch_unwind(std::panic::AssertUnwindSafe(|| if insert { store.insert_frame(&frame).map(|_| frame.clone()).map_err(|e| e.to_string()) } else { store.append(frame.clone()).map_err(|e| e.to_string()) }));
        let ok = match res {
            Err(p) => {
                fs.push(F { kind: "api.panic".into(), msg: format!("{}: the entry point panics: {}", label, msg_of(p)) });
                false
            }
            Ok(Err(_)) => {
                rejected += 1;
                if store.verif_dump() != before {
                    fs.push(F { kind: "frame.stored_malformed".into(), msg: format!("refused {} left something behind", label) });
                }
                false
            }
            Ok(Ok(_)) => {
                accepted += 1;
                true
            }
        };
        if ok {
            rt.block_on(store.wait_for_gc());
            let s2 = store.clone();
            let r = std::panic::catch_unwind(std::panic::AssertUnwindSafe(|| -> Result<(), String> {
                let v: Vec<Frame> = s2.read_sync(None, None, None).collect();
                if !v.iter().any(|f| f.id == base.id) {
                    return Err("the earlier frame is no longer read".into());
                }
                for f in &v {
                    let j = serde_json::to_string(f).map_err(|e| e.to_string())?;
                    let back: Frame = serde_json::from_str(&j).map_err(|e| format!("stored frame does not re-parse: {} :: {}", e, j))?;
                    if &back != f {
                        return Err(format!("frame changes in a JSON round trip: {:?} -> {:?}", f, back));
                    }
                    let _ = s2.get(&f.id);
                }
                let _ = s2.head("t", ZERO_CONTEXT);
                let _ = s2.head("base", ZERO_CONTEXT);
                Ok(())
            }));
            match r {
                Ok(Ok(())) => {}
                Ok(Err(e)) => fs.push(F { kind: "frame.roundtrip".into(), msg: format!("after accepted {}: {}", label, e) }),
                Err(p) => fs.push(F { kind: "read.panic".into(), msg: format!("after accepted {}: reading the store panics: {}", label, msg_of(p)) }),
            }
            // the collector still works: a head:1 pair is reduced to its newest frame
            let r = std::panic::catch_unwind(std::panic::AssertUnwindSafe(|| {
                let _ = store.append(Frame::builder("probe", ZERO_CONTEXT).ttl(TTL::Head(1)).build());
                let _ = store.append(Frame::builder("probe", ZERO_CONTEXT).ttl(TTL::Head(1)).build());
                rt.block_on(store.wait_for_gc());
                store.read_sync(None, None, None).filter(|f| f.topic == "probe").count()
            }));
            match r {
                Ok(1) => {}
                Ok(n) => fs.push(F { kind: "read.panic".into(), msg: format!("after accepted {}: the collector no longer works ({} frames of a head:1 topic remain)", label, n) }),
                Err(p) => fs.push(F { kind: "read.panic".into(), msg: format!("after accepted {}: appending / reading panics: {}", label, msg_of(p)) }),
            }
        }
        // reopen
        if common::close_store(store, Duration::from_secs(3)) {
            let d2 = dir.clone();
            let r = std::panic::catch_unwind(std::panic::AssertUnwindSafe(move || {
                let s = Store::new(d2);
                let n = s.read_sync(None, None, None).count();
                (s, n)
            }));
            match r {
                Ok((s, _)) => {
                    common::close_store(s, Duration::from_secs(3));
                }
                Err(p) => fs.push(F { kind: "read.panic".into(), msg: format!("after {} {}: the store cannot be reopened / read: {}", if ok { "accepted" } else { "refused" }, label, msg_of(p)) }),
            }
        } else if ok {
            fs.push(F { kind: "read.panic".into(), msg: format!("after accepted {}: the store does not close (a worker thread is stuck or dead)", label) });
        }
        let _ = std::fs::remove_dir_all(&dir);
    }
    (fs, accepted, rejected)
}

pub fn worker() {
    common::worker_loop(move |job| {
        let part = job["part"].as_str().unwrap_or("");
        let chunk = job["chunk"].as_u64().unwrap_or(0) as usize;
        let of = job["of"].as_u64().unwrap_or(1) as usize;
        let (fs, a, b) = match part {
            "ttl" => {
                let all = ttl_strings();
                let mine: Vec<String> = all.into_iter().enumerate().filter(|(i, _)| i % of == chunk).map(|(_, s)| s).collect();
                sweep_ttl(&mine)
            }
            "options" => sweep_read_options(),
            "client" => sweep_client(),
            "frames" => sweep_frames(chunk, of),
            "api" => sweep_api(chunk, of),
            _ => panic!("unknown part"),
        };
        json!({"findings": fs.iter().map(|f| json!({"kind": f.kind, "msg": f.msg})).collect::<Vec<_>>(), "a": a, "b": b})
    });
}

pub fn run_c12(tier: &str, report: &mut Report) {
    let _ = tier;
    let of = 12usize;
    let mut jobs = vec![];
    for c in 0..of {
        jobs.push(json!({"part": "ttl", "chunk": c, "of": of}));
    }
    jobs.push(json!({"part": "options"}));
    jobs.push(json!({"part": "client"}));
    for c in 0..of {
        jobs.push(json!({"part": "frames", "chunk": c, "of": of}));
    }
    for c in 0..8 {
        jobs.push(json!({"part": "api", "chunk": c, "of": 8}));
    }
    let results = common::pool_map("e6", &[], common::ncpu(), jobs.clone());
    let mut kinds: HashSet<String> = HashSet::new();
    let (mut ttl_acc, mut ttl_rej, mut opt_vals, mut opt_q, mut fr_acc, mut fr_rej) = (0u64, 0u64, 0u64, 0u64, 0u64, 0u64);
    let (mut cl_app, mut cl_cat) = (0u64, 0u64);
    let (mut api_acc, mut api_rej) = (0u64, 0u64);
    for (j, r) in jobs.iter().zip(results.iter()) {
        if r.get("crashed").is_some() || r.get("panicked").is_some() {
            // a crash of the whole worker means the subject took the process down on some input
            report.add_violation(Violation {
                property: "C12".into(),
                signature: format!("E6:crash:{}", j["part"].as_str().unwrap_or("")),
                message: format!("the process died while sweeping {}: {}", j, r),
                replay: json!({"engine": "e6", "job": j}),
            });
            continue;
        }
        let (a, b) = (r["a"].as_u64().unwrap_or(0), r["b"].as_u64().unwrap_or(0));
        match j["part"].as_str().unwrap_or("") {
            "ttl" => {
                ttl_acc += a;
                ttl_rej += b;
            }
            "options" => {
                opt_vals += a;
                opt_q += b;
            }
            "client" => {
                cl_app += a;
                cl_cat += b;
            }
            "api" => {
                api_acc += a;
                api_rej += b;
            }
            _ => {
                fr_acc += a;
                fr_rej += b;
            }
        }
        for f in r["findings"].as_array().cloned().unwrap_or_default() {
            let kind = f["kind"].as_str().unwrap_or("?").to_string();
            kinds.insert(kind.clone());
            report.add_violation(Violation {
                property: "C12".into(),
                signature: format!("E6:{}", kind),
                message: f["msg"].as_str().unwrap_or("").to_string(),
                replay: json!({"engine": "e6", "job": j}),
            });
        }
    }
    let total = ttl_acc + ttl_rej + opt_vals + opt_q + fr_acc + fr_rej + cl_app + cl_cat + api_acc + api_rej;
    report.cov("evaluations", json!(total));
    report.cov("distinct_nontrivial", json!(total));
    report.cov("states", json!(total));
    report.cov("transitions", json!(total));
    report.cov("traces_validated_against_impl", json!(total));
    report.cov("rule", json!("every concatenation of <=3 tokens of the 17-token TTL alphabet (deduplicated); every ReadOptions value of the 8x2x2x4x3 product; every query string of <=3 distinct-key pairs over the option alphabet (third pair thinned); every xs-meta text of the meta alphabet through POST /{topic}; frames over topic x hash x ttl x meta (one or two dimensions off the base point) through POST /import; the real client (xs::client::append / cat) against the real server over 7 TTLs x 6 metas (+ 6 metas covering the whole base64 alphabet of the xs-meta header, every padding length and multi-byte alignment) x 2 contexts x 2 bodies and 120 non-following option combinations in both renderings; frames built as Rust values (12 TTL values incl. Head(0), Time beyond u64 ms, sub-ms x 4 metas) through Store::append and Store::insert_frame, each on a fresh store with read-back, collector probe and reopen. All inputs are distinct by construction; each goes through the real parser / HTTP boundary."));
    report.cov("ttl_strings", json!({"accepted": ttl_acc, "rejected": ttl_rej}));
    report.cov("read_options", json!({"values": opt_vals, "query_strings": opt_q}));
    report.cov("frames", json!({"accepted": fr_acc, "rejected": fr_rej}));
    report.cov("client_trips", json!({"appends": cl_app, "cats": cl_cat}));
    report.cov("api_frames", json!({"accepted": api_acc, "rejected": api_rej}));
    report.cov("exhaustive", json!(true));
    report.cov("samples", json!(["time:+1", "head:4294967296", "follow=7&tail=no&limit=18446744073709551615", "xs-meta arr-depth-127", "import topic=\"a\\u0001\" hash=multi ttl=absent meta=null"]));
}

pub fn replay(v: &Value) -> i32 {
    let job = &v["job"];
    let part = job["part"].as_str().unwrap_or("");
    let chunk = job["chunk"].as_u64().unwrap_or(0) as usize;
    let of = job["of"].as_u64().unwrap_or(1) as usize;
    let (fs, _, _) = match part {
        "ttl" => {
            let all = ttl_strings();
            let mine: Vec<String> = all.into_iter().enumerate().filter(|(i, _)| i % of == chunk).map(|(_, s)| s).collect();
            sweep_ttl(&mine)
        }
        "options" => sweep_read_options(),
        "client" => sweep_client(),
        "api" => sweep_api(chunk, of),
        _ => sweep_frames(chunk, of),
    };
    for f in &fs {
        println!("finding {}: {}", f.kind, f.msg);
    }
    if fs.is_empty() {
        0
    } else {
        1
    }
}
