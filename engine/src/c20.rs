//! C20: export then import (every permutation, single-frame duplications) reproduces the store.
//! Source stores are the states reached by the E1 search over the C20 menu; the import goes
//! through the real HTTP routes POST /cas and POST /import.
use std::collections::BTreeSet;

use scru128::Scru128Id;
use xs::store::{Frame, Store, ZERO_CONTEXT};

use crate::common;
use crate::http::{Conn, Req, Server};
use crate::model::{never_ctx, Exec, Finding};

fn fnd(kind: &str, msg: String) -> Finding {
    Finding {
        kind: kind.into(),
        owners: vec!["C20".into()],
        msg,
    }
}

fn permutations(n: usize) -> Vec<Vec<usize>> {
    fn rec(cur: &mut Vec<usize>, used: &mut Vec<bool>, n: usize, out: &mut Vec<Vec<usize>>) {
        if cur.len() == n {
            out.push(cur.clone());
            return;
        }
        for i in 0..n {
            if !used[i] {
                used[i] = true;
                cur.push(i);
                rec(cur, used, n, out);
                cur.pop();
                used[i] = false;
            }
        }
    }
    let mut out = vec![];
    rec(&mut vec![], &mut vec![false; n], n, &mut out);
    out
}

struct Obs {
    all: Vec<Frame>,
    per_ctx: Vec<(Scru128Id, Vec<Frame>)>,
    heads: Vec<(Scru128Id, String, Option<Frame>)>,
    gets: Vec<(Scru128Id, Option<Frame>)>,
    contents: Vec<(String, Option<Vec<u8>>)>,
    registry: Vec<Scru128Id>,
}

fn observe(store: &Store, ids: &[Scru128Id], ctxs: &[Scru128Id], topics: &BTreeSet<String>, hashes: &BTreeSet<String>) -> Obs {
    // the importing server announces itself with an `xs.start` frame: not part of the import
    let all: Vec<Frame> = store.read_sync(None, None, None).filter(|f| f.topic != "xs.start").collect();
    let per_ctx = ctxs.iter().map(|c| (*c, store.read_sync(None, None, Some(*c)).filter(|f| f.topic != "xs.start").collect())).collect();
    let mut heads = vec![];
    for c in ctxs {
        for t in topics {
            heads.push((*c, t.clone(), store.head(t, *c)));
        }
    }
    let gets = ids.iter().map(|i| (*i, store.get(i))).collect();
    let contents = hashes
        .iter()
        .map(|h| (h.clone(), h.parse::<ssri::Integrity>().ok().and_then(|i| store.cas_read_sync(&i).ok())))
        .collect();
    Obs {
        all,
        per_ctx,
        heads,
        gets,
        contents,
        registry: store.verif_dump().contexts,
    }
}

fn diff(a: &Obs, b: &Obs) -> Option<String> {
    if a.all != b.all {
        return Some(format!(
            "all-contexts stream differs: source {:?} target {:?}",
            a.all.iter().map(|f| (f.id.to_string(), f.topic.clone())).collect::<Vec<_>>(),
            b.all.iter().map(|f| (f.id.to_string(), f.topic.clone())).collect::<Vec<_>>()
        ));
    }
    for (x, y) in a.per_ctx.iter().zip(b.per_ctx.iter()) {
        if x != y {
            return Some(format!("stream of context {} differs", x.0));
        }
    }
    for (x, y) in a.heads.iter().zip(b.heads.iter()) {
        if x != y {
            return Some(format!("head({:?}, {}) differs: source {:?} target {:?}", x.1, x.0, x.2.as_ref().map(|f| f.id), y.2.as_ref().map(|f| f.id)));
        }
    }
    for (x, y) in a.gets.iter().zip(b.gets.iter()) {
        if x != y {
            return Some(format!("get({}) differs", x.0));
        }
    }
    for (x, y) in a.contents.iter().zip(b.contents.iter()) {
        if x != y {
            return Some(format!("content of {} differs", x.0));
        }
    }
    if a.registry != b.registry {
        return Some(format!("usable contexts differ: source {:?} target {:?}", a.registry, b.registry));
    }
    None
}

/// Called on the leaf state of a replayed history.
pub fn check_export_import(e: &mut Exec) -> Vec<Finding> {
    let mut out = vec![];
    let src = e.store().clone();
    // export as xs.nu does: the all-contexts stream plus the content of every hash
    let frames: Vec<Frame> = src.read_sync(None, None, None).collect();
    if frames.is_empty() || frames.len() > 4 {
        return out;
    }
    let mut hashes: BTreeSet<String> = BTreeSet::new();
    let mut blobs: Vec<(String, Vec<u8>)> = vec![];
    for f in &frames {
        if let Some(h) = &f.hash {
            if hashes.insert(h.to_string()) {
                match src.cas_read_sync(h) {
                    Ok(b) => blobs.push((h.to_string(), b)),
                    Err(err) => out.push(fnd("export.content", format!("content {} of an exported frame is unreadable: {}", h, err))),
                }
            }
        }
    }
    let mut ctxs: Vec<Scru128Id> = vec![ZERO_CONTEXT, never_ctx()];
    ctxs.extend(e.ctxs.iter().cloned());
    let mut topics: BTreeSet<String> = frames.iter().map(|f| f.topic.clone()).collect();
    topics.insert("nosuch".into());
    let ids: Vec<Scru128Id> = frames.iter().map(|f| f.id).chain(e.gone.iter().cloned().take(4)).collect();
    let want = observe(&src, &ids, &ctxs, &topics, &hashes);

    let n = frames.len();
    let mut orders: Vec<Vec<usize>> = permutations(n);
    // single-frame duplications on the identity and the reversed order
    let ident: Vec<usize> = (0..n).collect();
    let rev: Vec<usize> = (0..n).rev().collect();
    for base in [ident, rev] {
        for d in 0..n {
            let mut o = base.clone();
            o.push(d);
            orders.push(o.clone());
            let mut o2 = base.clone();
            o2.insert(0, d);
            orders.push(o2);
        }
    }
    for order in &orders {
        let dir = common::scratch_dir("c20");
        let server = Server::start(dir);
        let mut conn = Conn::open(&server.sock).expect("connect");
        let label = format!("import order {:?}", order);
        for (h, b) in &blobs {
            let r = conn.roundtrip(&Req::new("POST", "/cas").body(b), None);
            if r.status != 200 || String::from_utf8_lossy(&r.body) != *h {
                out.push(fnd("import.cas", format!("{}: POST /cas answered {} {:?}, expected hash {}", label, r.status, String::from_utf8_lossy(&r.body), h)));
            }
        }
        for i in order {
            let body = serde_json::to_string(&frames[*i]).unwrap();
            let r = conn.roundtrip(&Req::new("POST", "/import").body(body.as_bytes()), None);
            if r.status != 200 {
                out.push(fnd("import.rejected", format!("{}: importing {:?} answered {} {:?}", label, frames[*i].topic, r.status, String::from_utf8_lossy(&r.body))));
            }
        }
        server.rt.block_on(server.store.wait_for_gc());
        let got = observe(&server.store, &ids, &ctxs, &topics, &hashes);
        if let Some(d) = diff(&want, &got) {
            out.push(fnd("import.differs", format!("{}: {}", label, d)));
        }
        // importing everything again changes nothing
        let before = server.store.verif_dump();
        for f in &frames {
            let body = serde_json::to_string(f).unwrap();
            let _ = conn.roundtrip(&Req::new("POST", "/import").body(body.as_bytes()), None);
        }
        if server.store.verif_dump() != before {
            out.push(fnd("import.dup", format!("{}: importing every frame a second time changed the store", label)));
        }
        // a frame that cannot be stored consistently is rejected whole
        let nul = Frame::builder("x\0y", ZERO_CONTEXT).id(Scru128Id::from_u128(frames[0].id.to_u128() + 5)).build();
        let r = conn.roundtrip(&Req::new("POST", "/import").body(serde_json::to_string(&nul).unwrap().as_bytes()), None);
        if r.status < 400 || server.store.verif_dump() != before {
            out.push(fnd("import.nul", format!("{}: NUL-topic frame answered {} / store changed: {}", label, r.status, server.store.verif_dump() != before)));
        }
        // usable contexts, tested last (it appends): acceptance must equal the source's
        for c in &ctxs {
            let want_ok = e.usable(c);
            let got_ok = server.store.append(Frame::builder("probe", *c).build()).is_ok();
            if want_ok != got_ok {
                out.push(fnd("import.usable", format!("{}: append into context {} is {} on the imported store but {} on the source", label, e.ctx_name(c), if got_ok { "accepted" } else { "rejected" }, if want_ok { "accepted" } else { "rejected" })));
            }
        }
        server.stop();
        if !out.is_empty() {
            break;
        }
    }
    e.reads_done += orders.len() as u64;
    out
}
