//! E3 (Rust side): traced driver and recovery checker. The python side (crash/enum.py) runs the
//! driver under strace, enumerates crash images and calls `recover` on each.
use std::io::Write;
use std::path::PathBuf;
use std::time::Duration;

use scru128::Scru128Id;
use serde_json::{json, Value};

use xs::store::{Frame, Store, TTL, ZERO_CONTEXT};

use crate::http::{Req, Server};

fn ack(n: &mut u32, v: Value) {
    let mut v = v;
    v["n"] = json!(*n);
    *n += 1;
    // one write(2) per marker, ordered after the operation's own syscalls
    let line = format!("ACK {}\n", v);
    let out = std::io::stdout();
    let mut o = out.lock();
    o.write_all(line.as_bytes()).unwrap();
    o.flush().unwrap();
}

fn fj(f: &Frame) -> Value {
    serde_json::to_value(f).unwrap()
}

/// Run a scripted history against the real write paths. Each acknowledged operation prints
/// `ACK {n, effects:[{ins:frame}|{del:id}], cas:[hash..]}` after it returned.
pub fn driver(dir: &str, history: &str) {
    if history == "H5" {
        return driver_dup(dir);
    }
    let dir = PathBuf::from(dir);
    let mut n = 0u32;
    let big = history == "H2";
    let http = history == "H3";
    let flush = history == "H4";
    let meta = |tag: &str| -> Value {
        if big {
            json!({"tag": tag, "pad": "x".repeat(12 * 1024)})
        } else {
            json!({"tag": tag})
        }
    };
    let server = if http { Some(Server::start(dir.clone())) } else { None };
    let store = match &server {
        Some(s) => s.store.clone(),
        None => Store::new(dir.clone()),
    };
    let rt = tokio::runtime::Builder::new_current_thread().enable_all().build().unwrap();
    // the HTTP server announces itself with an xs.start frame before it binds its socket
    let pre: Vec<Value> = store.read_sync(None, None, None).map(|f| json!({"ins": fj(&f)})).collect();
    ack(&mut n, json!({"op": "open", "effects": pre}));
    let do_flush = |store: &Store| {
        if flush {
            for p in ["stream", "idx_topic", "idx_context"] {
                store.verif_flush(p).unwrap();
            }
        }
    };
    // 1 register a context
    let ctx = store.append(Frame::builder("xs.context", ZERO_CONTEXT).meta(meta("ctx")).build()).unwrap();
    let mut ctx_stored = ctx.clone();
    ctx_stored.ttl = Some(TTL::Forever);
    ack(&mut n, json!({"op": "register", "effects": [{"ins": fj(&ctx_stored)}]}));
    do_flush(&store);
    // 2 append with content
    let f1 = if let Some(s) = &server {
        let r = crate::http::once(&s.sock, &Req::new("POST", "/a").body(b"content-one").header("xs-meta", base64_meta(&meta("one")).as_bytes()));
        serde_json::from_slice::<Frame>(&r.body).expect("http append")
    } else {
        let h = store.cas_insert_sync(b"content-one").unwrap();
        store.append(Frame::builder("a", ZERO_CONTEXT).hash(h).meta(meta("one")).build()).unwrap()
    };
    ack(&mut n, json!({"op": "append", "effects": [{"ins": fj(&f1)}], "cas": [f1.hash.as_ref().map(|h| h.to_string())]}));
    // a request carrying the same bytes is refused (unregistered context): acknowledged frames
    // keep their content, at every crash point
    if let Some(s) = &server {
        let never = Scru128Id::from_u128((3u128 << 100) | 77);
        let r = crate::http::once(&s.sock, &Req::new("POST", &format!("/a?context={}", never)).body(b"content-one"));
        assert!(r.status >= 400, "an append into an unregistered context was accepted");
        ack(&mut n, json!({"op": "refused-append", "effects": []}));
    }
    // 3 append into the context
    let f2 = if let Some(s) = &server {
        let r = crate::http::once(&s.sock, &Req::new("POST", &format!("/a?context={}", ctx.id)).body(&vec![7u8; 9000]));
        serde_json::from_slice::<Frame>(&r.body).expect("http append")
    } else {
        let h = store.cas_insert_sync(vec![7u8; 9000]).unwrap();
        store.append(Frame::builder("a", ctx.id).hash(h).meta(meta("two")).build()).unwrap()
    };
    ack(&mut n, json!({"op": "append", "effects": [{"ins": fj(&f2)}], "cas": [f2.hash.as_ref().map(|h| h.to_string())]}));
    do_flush(&store);
    // 4 remove
    if let Some(s) = &server {
        let r = crate::http::once(&s.sock, &Req::new("DELETE", &format!("/{}", f1.id)));
        assert!(r.status / 100 == 2);
    } else {
        store.remove(&f1.id).unwrap();
    }
    ack(&mut n, json!({"op": "remove", "effects": [{"del": f1.id.to_string()}]}));
    // 5 import (id older than everything)
    let imp = Frame::builder("imp", ctx.id).id(Scru128Id::from_u128(ctx.id.to_u128() - (1u128 << 40))).meta(meta("imp")).build();
    if let Some(s) = &server {
        let r = crate::http::once(&s.sock, &Req::new("POST", "/import").body(serde_json::to_string(&imp).unwrap().as_bytes()));
        assert!(r.status == 200);
    } else {
        store.insert_frame(&imp).unwrap();
    }
    ack(&mut n, json!({"op": "import", "effects": [{"ins": fj(&imp)}]}));
    // importing the very same frame again changes nothing - at no crash point either
    if let Some(s) = &server {
        let r = crate::http::once(&s.sock, &Req::new("POST", "/import").body(serde_json::to_string(&imp).unwrap().as_bytes()));
        assert!(r.status == 200);
    } else {
        store.insert_frame(&imp).unwrap();
    }
    ack(&mut n, json!({"op": "import-again", "effects": []}));
    do_flush(&store);
    // 6-7 head:1 appends with eviction
    let t1 = store.append(Frame::builder("t", ZERO_CONTEXT).ttl(TTL::Head(1)).meta(meta("t1")).build()).unwrap();
    rt.block_on(store.wait_for_gc());
    ack(&mut n, json!({"op": "append-head", "effects": [{"ins": fj(&t1)}]}));
    let t2 = store.append(Frame::builder("t", ZERO_CONTEXT).ttl(TTL::Head(1)).meta(meta("t2")).build()).unwrap();
    rt.block_on(store.wait_for_gc());
    // the eviction is the collector's own, unacknowledged work: it may or may not have become
    // durable ("optdel"), until somebody removes the frame explicitly
    ack(&mut n, json!({"op": "append-head+gc", "effects": [{"ins": fj(&t2)}, {"optdel": t1.id.to_string()}]}));
    // explicit remove of an id the collector already took: acknowledged, hence durable
    store.remove(&t1.id).unwrap();
    ack(&mut n, json!({"op": "remove-collected", "effects": [{"del": t1.id.to_string()}]}));
    // a time:N frame that expires, is collected after a read, and is then removed explicitly
    let tt = store.append(Frame::builder("tt", ZERO_CONTEXT).ttl(TTL::Time(std::time::Duration::from_millis(3_600_000))).meta(meta("tt")).build()).unwrap();
    ack(&mut n, json!({"op": "append-time", "effects": [{"ins": fj(&tt)}]}));
    xs::verif::set_clock(Some(tt.id.timestamp() + 3_600_001));
    let _ = store.read_sync(None, None, None).count();
    rt.block_on(store.wait_for_gc());
    xs::verif::set_clock(None);
    ack(&mut n, json!({"op": "expire+gc", "effects": [{"optdel": tt.id.to_string()}]}));
    store.remove(&tt.id).unwrap();
    ack(&mut n, json!({"op": "remove-expired", "effects": [{"del": tt.id.to_string()}]}));
    // 8 remove the registration
    store.remove(&ctx.id).unwrap();
    ack(&mut n, json!({"op": "unregister", "effects": [{"del": ctx.id.to_string()}]}));
    // 9 one more append
    let f3 = store.append(Frame::builder("ab", ZERO_CONTEXT).meta(meta("last")).build()).unwrap();
    ack(&mut n, json!({"op": "append", "effects": [{"ins": fj(&f3)}]}));
    ack(&mut n, json!({"op": "end", "effects": []}));
    // die without any orderly shutdown: the images are what matters
    std::process::exit(0);
}

/// H5: the same request arrives a second time while the first one is between the commit of its
/// batch and its fsync (a client retrying, two clients doing the same thing): the second request is
/// acknowledged first, and an acknowledged operation must survive a power loss whoever made it
/// durable.
pub fn driver_dup(dir: &str) {
    use std::sync::Arc;
    use xs::verif::{Sched, Who};
    let dir = PathBuf::from(dir);
    let mut n = 0u32;
    let store = Store::new(dir.clone());
    ack(&mut n, json!({"op": "open", "effects": []}));
    let ctx = store.append(Frame::builder("xs.context", ZERO_CONTEXT).build()).unwrap();
    let mut ctx_stored = ctx.clone();
    ctx_stored.ttl = Some(TTL::Forever);
    ack(&mut n, json!({"op": "register", "effects": [{"ins": fj(&ctx_stored)}]}));
    let f1 = store.append(Frame::builder("a", ctx.id).build()).unwrap();
    ack(&mut n, json!({"op": "append", "effects": [{"ins": fj(&f1)}]}));
    let f2 = store.append(Frame::builder("a", ZERO_CONTEXT).build()).unwrap();
    ack(&mut n, json!({"op": "append", "effects": [{"ins": fj(&f2)}]}));
    let imp = Frame::builder("imp", ctx.id).id(Scru128Id::from_u128(ctx.id.to_u128() - (1u128 << 40))).build();
    // (what, the request as a closure, its effect)
    let rm_id = f1.id;
    let imp2 = imp.clone();
    let steps: Vec<(&str, Box<dyn Fn(&Store) + Send + Sync>, Value)> = vec![
        ("remove", Box::new(move |s: &Store| s.remove(&rm_id).unwrap()), json!([{"del": f1.id.to_string()}])),
        ("import", Box::new(move |s: &Store| s.insert_frame(&imp2).unwrap()), json!([{"ins": fj(&imp)}])),
    ];
    for (k, (what, req, effects)) in steps.into_iter().enumerate() {
        let req: Arc<Box<dyn Fn(&Store) + Send + Sync>> = Arc::new(req);
        let ctl = crate::sched::Ctl::new(&["commit.sync"]);
        let sched: Arc<dyn Sched> = ctl.clone();
        store.verif_hooks().install(Some(sched.clone()));
        let who = Who::new("dup", k as u128 + 1);
        sched.spawned(who);
        let t1 = {
            let store = store.clone();
            let req = req.clone();
            let sched = sched.clone();
            std::thread::spawn(move || {
                xs::verif::set_actor(Some(who));
                (req)(&store);
                sched.finished(who);
            })
        };
        // the first request is now between commit and fsync
        if !ctl.await_kind("dup", Duration::from_secs(20)) {
            eprintln!("harness: the first request did not reach its commit");
            std::process::exit(3);
        }
        // the duplicate, on this thread (no actor: it runs through)
        (req)(&store);
        ack(&mut n, json!({"op": format!("{}-duplicate", what), "effects": effects}));
        ctl.release_all();
        let _ = t1.join();
        store.verif_hooks().install(None);
        ack(&mut n, json!({"op": what, "effects": effects}));
    }
    // a different frame imported under a stored id (f2 moves to another topic and context): one
    // all-or-nothing step - at no crash point is the id without a frame (seed C04-r7: remove, then
    // store, in two commits)
    let moved = Frame::builder("moved", ctx.id).id(f2.id).build();
    store.insert_frame(&moved).unwrap();
    ack(&mut n, json!({"op": "import-over", "effects": [{"ins": fj(&moved)}]}));
    // an import the store refuses (NUL in the topic) under a stored id leaves that frame alone
    let bad = Frame::builder("a\0b", ZERO_CONTEXT).id(moved.id).build();
    let _ = store.insert_frame(&bad);
    ack(&mut n, json!({"op": "import-refused", "effects": []}));
    let f3 = store.append(Frame::builder("ab", ZERO_CONTEXT).build()).unwrap();
    ack(&mut n, json!({"op": "append", "effects": [{"ins": fj(&f3)}]}));
    ack(&mut n, json!({"op": "end", "effects": []}));
    std::process::exit(0);
}

/// Second generation: open a process-kill image, report what is there, send the request the
/// killed process was executing once more and acknowledge it.
pub fn driver2(dir: &str, spec_file: &str) {
    let spec: Value = serde_json::from_str(&std::fs::read_to_string(spec_file).expect("spec file")).expect("spec json");
    let mut n = 0u32;
    let store = Store::new(PathBuf::from(dir));
    let pre: Vec<Value> = store.read_sync(None, None, None).map(|f| json!({"ins": fj(&f)})).collect();
    ack(&mut n, json!({"op": "open", "effects": pre}));
    match spec["op"].as_str().unwrap_or("") {
        "import" => {
            let frame: Frame = serde_json::from_value(spec["frame"].clone()).expect("frame");
            store.insert_frame(&frame).expect("retry import");
            ack(&mut n, json!({"op": "retry-import", "effects": [{"ins": fj(&frame)}]}));
        }
        "remove" => {
            let id: Scru128Id = spec["id"].as_str().unwrap().parse().expect("id");
            store.remove(&id).expect("retry remove");
            ack(&mut n, json!({"op": "retry-remove", "effects": [{"del": id.to_string()}]}));
        }
        // third generation: nothing is requested; the process only runs the recovery and lets the
        // background work it triggers (flush of recovered memtables, journal maintenance) settle
        "none" => {
            std::thread::sleep(std::time::Duration::from_millis(spec["settle_ms"].as_u64().unwrap_or(300)));
            ack(&mut n, json!({"op": "idle", "effects": []}));
        }
        other => panic!("driver2: unknown op {}", other),
    }
    std::process::exit(0);
}

fn base64_meta(v: &Value) -> String {
    use base64::Engine as _;
    base64::prelude::BASE64_STANDARD.encode(v.to_string())
}

/// Open a crash image and dump every observation as one JSON line. Exit code 0 = opened.
pub fn recover(image: &str, probe_file: &str) {
    let probe: Value = serde_json::from_str(&std::fs::read_to_string(probe_file).expect("probe file")).expect("probe json");
    let store = Store::new(PathBuf::from(image));
    let all: Vec<Frame> = store.read_sync(None, None, None).collect();
    let mut ctxs: Vec<Scru128Id> = vec![ZERO_CONTEXT];
    for c in probe["ctxs"].as_array().cloned().unwrap_or_default() {
        if let Some(id) = c.as_str().and_then(|s| s.parse().ok()) {
            ctxs.push(id);
        }
    }
    let mut per_ctx = serde_json::Map::new();
    for c in &ctxs {
        let v: Vec<String> = store.read_sync(None, None, Some(*c)).map(|f| f.id.to_string()).collect();
        per_ctx.insert(c.to_string(), json!(v));
    }
    let mut gets = serde_json::Map::new();
    for i in probe["ids"].as_array().cloned().unwrap_or_default() {
        if let Some(id) = i.as_str().and_then(|s| s.parse::<Scru128Id>().ok()) {
            gets.insert(id.to_string(), json!(store.get(&id).map(|f| fj(&f))));
        }
    }
    let mut heads = vec![];
    for c in &ctxs {
        for t in probe["topics"].as_array().cloned().unwrap_or_default() {
            let t = t.as_str().unwrap_or("").to_string();
            heads.push(json!({"ctx": c.to_string(), "topic": t, "id": store.head(&t, *c).map(|f| f.id.to_string())}));
        }
    }
    let mut cas = serde_json::Map::new();
    for f in &all {
        if let Some(h) = &f.hash {
            cas.insert(h.to_string(), json!(store.cas_read_sync(h).map(|b| b.len()).ok()));
        }
    }
    let dump = store.verif_dump();
    // usable contexts, decided by a real append (last: it mutates the image)
    let mut usable = serde_json::Map::new();
    for c in &ctxs {
        usable.insert(c.to_string(), json!(store.append(Frame::builder("probe", *c).ttl(TTL::Ephemeral).build()).is_ok()));
    }
    let out = json!({
        "all": all.iter().map(fj).collect::<Vec<_>>(),
        "per_ctx": per_ctx,
        "gets": gets,
        "heads": heads,
        "cas": cas,
        "registry": dump.contexts.iter().map(|c| c.to_string()).collect::<Vec<_>>(),
        "usable": usable,
        "raw": {"stream": dump.stream.len(), "idx_topic": dump.idx_topic.len(), "idx_context": dump.idx_context.len()},
    });
    println!("RECOVERED {}", out);
    let _ = Duration::from_secs(0);
    std::process::exit(0);
}

/// C04 check: run the python enumerator and turn its result into the report.
pub fn run(tier: &str, report: &mut crate::common::Report) {
    let exe = std::env::current_exe().unwrap();
    let out = crate::common::scratch_dir("c04").join("result.json");
    let script = std::path::Path::new(crate::common::VERIF).join("crash/crashenum.py");
    let st = std::process::Command::new("python3")
        .arg(&script)
        .arg(&exe)
        .arg(tier)
        .arg(&out)
        .status()
        .expect("python3");
    if !st.success() {
        eprintln!("HARNESS ERROR: crash enumerator failed ({:?})", st.code());
        std::process::exit(2);
    }
    let v: Value = serde_json::from_str(&std::fs::read_to_string(&out).expect("result")).expect("result json");
    let stats = &v["stats"];
    for p in v["violations"].as_array().cloned().unwrap_or_default() {
        let problem = p["problem"].as_str().unwrap_or("");
        let class = if problem.starts_with("the store does not reopen") {
            "noreopen"
        } else if problem.starts_with("recovered frames") {
            "state"
        } else if problem.contains("content is not readable") {
            "cas"
        } else {
            "inconsistent"
        };
        report.add_violation(crate::common::Violation {
            property: "C04".into(),
            signature: format!("E3:{}:{}:{}", p["history"].as_str().unwrap_or(""), p["kind"].as_str().unwrap_or(""), class),
            message: format!("{}: {}", p["image"].as_str().unwrap_or(""), problem),
            replay: json!({"engine": "e3", "tier": tier, "image": p["image"]}),
        });
    }
    let kill = stats["images_kill"].as_u64().unwrap_or(0);
    let power = stats["images_power"].as_u64().unwrap_or(0);
    let torn = stats["images_torn"].as_u64().unwrap_or(0);
    report.cov("evaluations", json!(kill + power + torn));
    report.cov("distinct_nontrivial", stats["distinct_recovered_states"].clone());
    report.cov("crash_points", stats["crash_points"].clone());
    report.cov("images", json!({"process_kill": kill, "power_loss": power, "torn_tail": torn}));
    let g2 = stats["images_second_generation"].as_u64().unwrap_or(0);
    let g3 = stats["images_recovery_fault"].as_u64().unwrap_or(0);
    report.cov("recoveries_run", json!(kill + power + torn + g2 + g3));
    report.cov("fault_during_recovery", json!({"first_generation_kill_images_reopened_under_trace": stats["recovery_fault_runs"], "images": g3, "max_mutations_of_one_recovery": stats["recovery_mutations_max"], "samples": stats["recovery_fault_samples"], "rule": "a process-kill image of the first generation is reopened by a traced process that only runs the recovery and lets the background work it triggers settle (300 ms); for EVERY prefix of that process's store-directory mutations a process-kill image and, wherever a journal holds unsynced bytes, a power-loss image is opened by a third process and judged against the same acknowledged history (quick: six first-generation crash points per history spread over the trace; thorough: every one)"}));
    report.cov("second_generation", json!({"kill_reopen_retry_runs": stats["second_generation_runs"], "images": g2, "rule": "process-kill images taken inside an import / remove are reopened by a second traced process which sends the same request again and acknowledges it; kill and power-loss images after that acknowledgement (the unsynced journal bytes of the first process are still unsynced) must contain the operation"}));
    report.cov("syscalls_interpreted", stats["syscalls_interpreted"].clone());
    report.cov("histories", v["histories"].clone());
    report.cov("rule", json!("for each scripted history (H1 store API, H2 same with 12 KiB metas, H3 through the HTTP routes with bodies, H4 with forced memtable flushes, H5 a duplicate remove / import arriving while the first one is between commit and fsync, then a replacing and a refused import under a stored id) the driver is traced with strace; for EVERY prefix of the store-directory mutations after the first acknowledged operation one process-kill image, and wherever the journal holds unsynced bytes one power-loss image plus torn tails of the last unsynced journal write, are materialised and opened by a fresh process; distinct_nontrivial = distinct recovered frame sets"));
    report.cov("samples", v["samples"].clone());
    report.cov("exhaustive", json!(true));
    report.cov("interpreter_self_check", json!("the interpreted final file-system state is compared byte for byte with the real directory after each traced run"));
}
