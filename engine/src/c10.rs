//! C10: content store -- byte-exact, content-addressed (same hash on every entry point and across
//! reopen), present before its frame (observer at the append hook of every thread).
use std::collections::BTreeMap;
use std::io::Write;
use std::sync::{Arc, Mutex};
use std::time::Duration;

use base64::Engine as _;
use serde_json::{json, Value};
use sha2::{Digest, Sha256};
use tokio::io::AsyncWriteExt;

use xs::store::{Frame, Store};

use crate::common::{self, Report, Violation};
use crate::http::{Req, Server};
use crate::sched::Ctl;

pub fn inputs() -> Vec<(&'static str, Vec<u8>)> {
    vec![
        ("empty", vec![]),
        ("one", vec![0x41]),
        ("nonutf8", vec![0xff, 0xfe, 0x00, 0x80, 0x0a]),
        ("8192", (0..8192u32).map(|i| (i % 253) as u8).collect()),
        ("8193", (0..8193u32).map(|i| (i % 251) as u8).collect()),
        ("70000", (0..70000u32).map(|i| (i % 249) as u8).collect()),
    ]
}

pub fn sha256_integrity(b: &[u8]) -> String {
    let d = Sha256::digest(b);
    format!("sha256-{}", base64::prelude::BASE64_STANDARD.encode(d))
}

/// Install an observer that reads the content of every hashed frame at the moment its append
/// has assigned the id (i.e. before it can become visible to anybody).
pub fn install_observer(store: &Store) -> (Arc<Ctl>, Arc<Mutex<Vec<String>>>, Arc<Mutex<u64>>) {
    let ctl = Ctl::new(&[]);
    let bad: Arc<Mutex<Vec<String>>> = Arc::new(Mutex::new(vec![]));
    let seen: Arc<Mutex<u64>> = Arc::new(Mutex::new(0));
    {
        let st = store.clone();
        let bad = bad.clone();
        let seen = seen.clone();
        *ctl.on_frame.lock().unwrap() = Some(Box::new(move |op: &'static str, f: &Frame| {
            if op != "append.id" {
                return;
            }
            if let Some(h) = &f.hash {
                *seen.lock().unwrap() += 1;
                if let Err(e) = st.cas_read_sync(h) {
                    bad.lock().unwrap().push(format!("frame {:?} with hash {} is being appended but its content is not retrievable: {}", f.topic, h, e));
                }
            }
        }));
    }
    let s: Arc<dyn xs::verif::Sched> = ctl.clone();
    store.verif_hooks().install(Some(s));
    (ctl, bad, seen)
}

pub struct F {
    pub kind: String,
    pub msg: String,
}

/// Same observer for the lifecycle engine: violations are collected when the world stops; here
/// they are simply printed into the caller's finding list lazily via a leaked handle.
pub fn install_observer_into(store: &Store, _fs: &mut Vec<crate::c15::F>) {
    let (ctl, bad, _seen) = install_observer(store);
    OBSERVERS.lock().unwrap().push((ctl, bad));
}

pub static OBSERVERS: Mutex<Vec<(Arc<Ctl>, Arc<Mutex<Vec<String>>>)>> = Mutex::new(Vec::new());

/// Drain the messages of all observers installed in this process.
pub fn drain_observers() -> Vec<String> {
    let mut out = vec![];
    for (ctl, bad) in OBSERVERS.lock().unwrap().drain(..) {
        *ctl.on_frame.lock().unwrap() = None;
        out.extend(bad.lock().unwrap().drain(..));
    }
    out
}

pub fn run_store_and_http() -> (Vec<F>, u64, Vec<String>) {
    let mut fs = vec![];
    let mut evals = 0u64;
    let mut outcomes = vec![];
    let dir = common::scratch_dir("c10");
    let mut server = Server::start(dir.clone());
    let (_ctl, bad, seen) = install_observer(&server.store);
    let mut all_hashes: BTreeMap<String, Vec<u8>> = BTreeMap::new();
    for (name, bytes) in inputs() {
        let want = sha256_integrity(&bytes);
        let mut got: Vec<(&str, Result<Option<String>, String>)> = vec![];
        let store = server.store.clone();
        // 1-2 size-hinted inserts
        let b = bytes.clone();
        let st = store.clone();
        got.push(("cas_insert", server.rt.block_on(async move { st.cas_insert(&b).await }).map(|h| Some(h.to_string())).map_err(|e| e.to_string())));
        got.push(("cas_insert_sync", store.cas_insert_sync(&bytes).map(|h| Some(h.to_string())).map_err(|e| e.to_string())));
        // 3 async writer, small chunks
        let b = bytes.clone();
        let st = store.clone();
        let chunk = if bytes.len() > 10000 { 8192 } else { 1 };
        got.push((
            "cas_writer",
            server
                .rt
                .block_on(async move {
                    let mut w = st.cas_writer().await?;
                    for c in b.chunks(chunk) {
                        w.write_all(c).await.map_err(|e| cacache::Error::IoError(e, "write".into()))?;
                    }
                    w.commit().await
                })
                .map(|h| Some(h.to_string()))
                .map_err(|e: cacache::Error| e.to_string()),
        ));
        // 4 sync writer, 8 KiB chunks
        got.push((
            "cas_writer_sync",
            (|| -> Result<Option<String>, String> {
                let mut w = store.cas_writer_sync().map_err(|e| e.to_string())?;
                for c in bytes.chunks(8192) {
                    w.write_all(c).map_err(|e| e.to_string())?;
                }
                Ok(Some(w.commit().map_err(|e| e.to_string())?.to_string()))
            })(),
        ));
        // 5-6 POST /cas
        for chunked in [false, true] {
            let mut req = Req::new("POST", "/cas");
            if !bytes.is_empty() || chunked {
                req = req.body(&bytes);
            }
            if chunked {
                req = req.chunked();
            }
            let r = crate::http::once(&server.sock, &req);
            let res = if r.status == 200 {
                Ok(Some(String::from_utf8_lossy(&r.body).to_string()))
            } else if r.status == 400 && bytes.is_empty() {
                Ok(None)
            } else {
                Err(format!("status {} {:?}", r.status, r.error))
            };
            got.push((if chunked { "POST /cas chunked" } else { "POST /cas" }, res));
        }
        // 7-8 POST /{topic}
        for chunked in [false, true] {
            let mut req = Req::new("POST", &format!("/c10.{}", name));
            if !bytes.is_empty() || chunked {
                req = req.body(&bytes);
            }
            if chunked {
                req = req.chunked();
            }
            let r = crate::http::once(&server.sock, &req);
            let res = if r.status == 200 {
                match serde_json::from_slice::<Frame>(&r.body) {
                    Ok(f) => Ok(f.hash.map(|h| h.to_string())),
                    Err(e) => Err(format!("bad frame: {}", e)),
                }
            } else {
                Err(format!("status {} {:?}", r.status, r.error))
            };
            if bytes.is_empty() {
                if let Ok(Some(h)) = &res {
                    fs.push(F { kind: "cas.nobody_hash".into(), msg: format!("POST /topic without a body produced hash {}", h) });
                }
            }
            got.push((if chunked { "POST /topic chunked" } else { "POST /topic" }, res));
        }
        // requests that are refused (or cut) while carrying bytes that visible frames already
        // reference: whatever the fault path does, that content stays retrievable
        if !bytes.is_empty() {
            let never = scru128::Scru128Id::from_u128((3u128 << 100) | 99).to_string();
            let nul_frame = serde_json::to_vec(&json!({"id": scru128::new().to_string(), "context_id": xs::store::ZERO_CONTEXT.to_string(), "topic": "c10\u{0}nul", "hash": want})).unwrap();
            let refused: Vec<(&str, Req)> = vec![
                ("POST /topic into an unregistered context", Req::new("POST", &format!("/c10.rej?context={}", never)).body(&bytes)),
                ("POST /topic into an unregistered context, chunked", Req::new("POST", &format!("/c10.rej?context={}", never)).body(&bytes).chunked()),
                ("POST /topic with a NUL topic", Req::new("POST", "/c10%00rej").body(&bytes)),
                ("POST /topic with a malformed ttl", Req::new("POST", "/c10.rej?ttl=bogus").body(&bytes)),
                ("POST /topic with a malformed xs-meta", Req::new("POST", "/c10.rej").header("xs-meta", b"%%%").body(&bytes)),
                ("POST /topic cut mid-body", Req::new("POST", "/c10.rej").body(&bytes).truncated(bytes.len() / 2)),
                ("POST /cas cut mid-body", Req::new("POST", "/cas").body(&bytes).truncated(bytes.len() / 2)),
                ("POST /import of a NUL-topic frame with that hash", Req::new("POST", "/import").body(&nul_frame)),
            ];
            for (what, req) in refused {
                evals += 1;
                let r = crate::http::once(&server.sock, &req);
                outcomes.push(format!("{}:{}:{}", name, what, r.status / 100));
                if r.status == 200 && !what.contains("cut") {
                    // not refused after all: nothing to check here (C13 / C05 / C12 own acceptance)
                }
                match want.parse::<ssri::Integrity>().ok().and_then(|i| store.cas_read_sync(&i).ok()) {
                    Some(c) if c == bytes => {}
                    _ => {
                        fs.push(F { kind: "cas.lost_on_reject".into(), msg: format!("after {} (answered {}) carrying the bytes of input {:?}, the content {} of the frames that already reference it is no longer retrievable", what, r.status, name, want) });
                        break;
                    }
                }
            }
        }
        for (entry, res) in &got {
            evals += 1;
            match res {
                Ok(Some(h)) => {
                    outcomes.push(format!("{}:{}:ok", name, entry));
                    if *h != want {
                        fs.push(F { kind: "cas.hash".into(), msg: format!("{} of input {:?} reported {}, the SHA-256 of the bytes is {}", entry, name, h, want) });
                    }
                    match h.parse::<ssri::Integrity>().ok().and_then(|i| store.cas_read_sync(&i).ok()) {
                        Some(c) if c == bytes => {}
                        Some(c) => fs.push(F { kind: "cas.bytes".into(), msg: format!("{} of input {:?}: read back {} bytes, wrote {}", entry, name, c.len(), bytes.len()) }),
                        None => fs.push(F { kind: "cas.bytes".into(), msg: format!("{} of input {:?}: content not retrievable by the reported hash", entry, name) }),
                    }
                    all_hashes.insert(h.clone(), bytes.clone());
                }
                Ok(None) => outcomes.push(format!("{}:{}:none", name, entry)),
                Err(e) => {
                    outcomes.push(format!("{}:{}:err", name, entry));
                    // a write that reports failure makes no claim (documented: size-hinted empty insert on Linux)
                    if !bytes.is_empty() {
                        fs.push(F { kind: "cas.write_failed".into(), msg: format!("{} of input {:?} failed: {}", entry, name, e) });
                    }
                }
            }
        }
    }
    // across a restart: same bytes, same hash, same content
    let sock_dir = dir.clone();
    server.store.verif_hooks().install(None);
    *_ctl.on_frame.lock().unwrap() = None; // the observer holds a store clone
    drop(_ctl);
    let Server { store, rt, .. } = server;
    rt.shutdown_timeout(Duration::from_secs(10)); // connection tasks hold store clones
    if !common::close_store(store, Duration::from_secs(75)) {
        eprintln!("HARNESS ERROR: store did not close");
        std::process::exit(2);
    }
    let store = Store::new(sock_dir.clone());
    for (h, b) in &all_hashes {
        evals += 1;
        match h.parse::<ssri::Integrity>().ok().and_then(|i| store.cas_read_sync(&i).ok()) {
            Some(c) if &c == b => {}
            _ => fs.push(F { kind: "cas.reopen".into(), msg: format!("content {} is not byte-identical after reopening the store", h) }),
        }
        if !b.is_empty() {
            match store.cas_insert_sync(b) {
                Ok(h2) if h2.to_string() == *h => {}
                other => fs.push(F { kind: "cas.reopen".into(), msg: format!("same bytes hash to {:?} after reopen, {} before", other.map(|x| x.to_string()), h) }),
            }
        }
    }
    server = Server::start_with(store, sock_dir);
    server.stop();
    for b in bad.lock().unwrap().iter() {
        fs.push(F { kind: "cas.frame_before_content".into(), msg: b.clone() });
    }
    outcomes.push(format!("observer:{}", *seen.lock().unwrap()));
    (fs, evals, outcomes)
}

/// Script entry points: nu `.append` (unbuffered variant inside a command, buffered variant
/// inside a handler) fed with a string, binary, record and external-command byte streams that
/// arrive in one burst, in two bursts, and larger than the 8 KiB copy buffer.
pub fn run_scripts() -> (Vec<F>, u64, Vec<String>) {
    use crate::e5::{meta_str, Serve, World};
    let mut fs = vec![];
    let mut outcomes = vec![];
    let mut evals = 0u64;
    let inputs: Vec<(&str, String, Vec<u8>)> = vec![
        ("string", "\"h\u{e9}llo\"".to_string(), "h\u{e9}llo".as_bytes().to_vec()),
        ("binary", "0x[ff fe 00 80]".to_string(), vec![0xff, 0xfe, 0x00, 0x80]),
        ("record", "{a: 1, b: [\"x\"]}".to_string(), b"{\"a\":1,\"b\":[\"x\"]}".to_vec()),
        ("ext-one-burst", "^sh -c \"printf HEADTAIL\"".to_string(), b"HEADTAIL".to_vec()),
        ("ext-two-bursts", "^sh -c \"printf HEAD; sleep 0.05; printf TAIL\"".to_string(), b"HEADTAIL".to_vec()),
        ("ext-large-two-bursts", "^sh -c \"head -c 5000 /dev/zero; sleep 0.05; head -c 5003 /dev/zero\"".to_string(), vec![0u8; 10003]),
        ("ext-20000", "^sh -c \"head -c 20000 /dev/zero\"".to_string(), vec![0u8; 20000]),
    ];
    let w = World::start(Serve { handlers: true, commands: true, ..Default::default() });
    let (_ctl, bad, seen) = install_observer(&w.store);
    let ctx = w.ctx_a;
    for (name, expr, want) in &inputs {
        for via in ["command", "handler"] {
            evals += 1;
            let topic = format!("c10.{}.{}", via, name);
            let trigger = if via == "command" {
                w.append_c("c10cmd.define", ctx, Some(&format!("{{run: {{|frame| {} | .append {} | ignore}}}}", expr, topic)), None);
                w.append_c("c10cmd.call", ctx, None, None)
            } else {
                let r = w.append_c("c10h.register", ctx, Some(&format!("{{run: {{|frame| if $frame.topic != \"go\" {{ return }}; {} | .append {}}}}}", expr, topic)), None);
                w.wait(|f| f.topic == "c10h.registered" && meta_str(f, "handler_id") == Some(r.id.to_string()), 20.0);
                w.append_c("go", ctx, None, None)
            };
            let out = w.wait(|f| f.topic == topic && meta_str(f, "frame_id") == Some(trigger.id.to_string()), 20.0);
            match out {
                None => {
                    let err = w.snapshot().into_iter().rev().find(|f| f.topic.ends_with(".error") || f.topic.ends_with(".unregistered")).and_then(|f| f.meta);
                    fs.push(F { kind: "cas.script_no_output".into(), msg: format!("nu .append ({}, input {}) produced no frame: {:?}", via, name, err) });
                    outcomes.push(format!("{}:{}:none", via, name));
                }
                Some(f) => {
                    let got = f.hash.as_ref().and_then(|h| w.store.cas_read_sync(h).ok());
                    let want_hash = sha256_integrity(want);
                    if got.as_deref() != Some(want.as_slice()) || f.hash.as_ref().map(|h| h.to_string()) != Some(want_hash.clone()) {
                        fs.push(F {
                            kind: "cas.script_bytes".into(),
                            msg: format!("nu .append ({}, input {}): stored {} bytes with hash {:?}; the pipeline produced {} bytes (sha256 {})", via, name, got.map(|g| g.len() as i64).unwrap_or(-1), f.hash.as_ref().map(|h| h.to_string()), want.len(), want_hash),
                        });
                    }
                    outcomes.push(format!("{}:{}:ok", via, name));
                }
            }
        }
    }
    for b in bad.lock().unwrap().iter() {
        fs.push(F { kind: "cas.frame_before_content".into(), msg: b.clone() });
    }
    outcomes.push(format!("observer-scripts:{}", *seen.lock().unwrap()));
    w.store.verif_hooks().install(None);
    *_ctl.on_frame.lock().unwrap() = None;
    w.stop();
    (fs, evals, outcomes)
}

pub fn run(_tier: &str, report: &mut Report) {
    let (mut fs, mut evals, mut outcomes) = run_store_and_http();
    let (fs2, e2, o2) = run_scripts();
    fs.extend(fs2);
    evals += e2;
    outcomes.extend(o2);
    for f in fs {
        report.add_violation(Violation {
            property: "C10".into(),
            signature: format!("C10:{}", f.kind),
            message: f.msg,
            replay: json!({"engine": "c10"}),
        });
    }
    let distinct: std::collections::BTreeSet<&String> = outcomes.iter().collect();
    report.cov("states", json!(evals));
    report.cov("transitions", json!(evals));
    report.cov("traces_validated_against_impl", json!(evals));
    report.cov("evaluations", json!(evals));
    report.cov("distinct_nontrivial", json!(distinct.len()));
    report.cov("rule", json!("6 byte strings (empty, 1 byte, non-UTF-8, 8192, 8193, 70000) x 8 entry points (cas_insert, cas_insert_sync, cas_writer in 1-byte/8KiB chunks, cas_writer_sync, POST /cas plain+chunked, POST /{topic} plain+chunked), then every hash re-read and re-written after reopening the store; nu .append in its unbuffered (command) and buffered (handler) variants x 7 input shapes (string, binary, record, external byte stream in one burst / two bursts / > 8 KiB in two bursts / 20000 bytes); an observer at the append hook reads the content of every hashed frame before the frame can become visible"));
    report.cov("samples", json!(outcomes.iter().take(8).collect::<Vec<_>>()));
    report.cov("exhaustive", json!(true));
    let _: Option<Value> = None;
}
