//! E4 plumbing: the real `xs::api::serve` on a fresh store + a raw HTTP/1.1 client over the unix
//! socket (so that arbitrary header bytes, chunked bodies and odd paths can be produced).
use std::io::{Read, Write};
use std::os::unix::net::UnixStream;
use std::path::PathBuf;
use std::time::{Duration, Instant};

use xs::store::Store;

pub struct Server {
    pub store: Store,
    pub rt: tokio::runtime::Runtime,
    pub sock: PathBuf,
    pub dir: PathBuf,
}

impl Server {
    pub fn start(dir: PathBuf) -> Server {
        let store = Store::new(dir.clone());
        Self::start_with(store, dir)
    }

    pub fn start_with(store: Store, dir: PathBuf) -> Server {
        let rt = tokio::runtime::Builder::new_multi_thread()
            .worker_threads(2)
            .enable_all()
            .build()
            .unwrap();
        let engine = xs::nu::Engine::new().expect("nu engine");
        let sock = dir.join("sock");
        {
            let store = store.clone();
            rt.spawn(async move {
                let _ = xs::api::serve(store, engine, None).await;
            });
        }
        let t0 = Instant::now();
        while !sock.exists() {
            if t0.elapsed() > Duration::from_secs(10) {
                panic!("harness: api::serve did not bind its socket");
            }
            std::thread::sleep(Duration::from_micros(200));
        }
        // the socket file appears at bind(2), connections are accepted only after listen(2)
        loop {
            match UnixStream::connect(&sock) {
                Ok(_) => break,
                Err(_) if t0.elapsed() < Duration::from_secs(10) => std::thread::sleep(Duration::from_micros(200)),
                Err(e) => panic!("harness: cannot connect to the api socket: {}", e),
            }
        }
        Server {
            store,
            rt,
            sock,
            dir,
        }
    }

    pub fn stop(self) {
        let Server { store, rt, dir, .. } = self;
        rt.shutdown_background();
        crate::common::close_store_async(store);
        std::thread::spawn(move || {
            std::thread::sleep(Duration::from_millis(700));
            let _ = std::fs::remove_dir_all(dir);
        });
    }
}

#[derive(Clone, Debug, Default)]
pub struct Req {
    pub method: String,
    /// path and query, sent verbatim
    pub target: String,
    pub headers: Vec<(String, Vec<u8>)>,
    pub body: Option<Vec<u8>>,
    pub chunked: bool,
    /// send only this many body bytes (and no chunk terminator), then half-close the connection
    pub truncate_body: Option<usize>,
}

impl Req {
    pub fn new(method: &str, target: &str) -> Req {
        Req {
            method: method.into(),
            target: target.into(),
            ..Default::default()
        }
    }
    pub fn header(mut self, k: &str, v: &[u8]) -> Req {
        self.headers.push((k.into(), v.to_vec()));
        self
    }
    pub fn body(mut self, b: &[u8]) -> Req {
        self.body = Some(b.to_vec());
        self
    }
    pub fn chunked(mut self) -> Req {
        self.chunked = true;
        self
    }
    pub fn truncated(mut self, sent: usize) -> Req {
        self.truncate_body = Some(sent);
        self
    }
}

#[derive(Clone, Debug, Default)]
pub struct Resp {
    /// 0 = no status line received (connection closed / timeout)
    pub status: u16,
    pub headers: Vec<(String, String)>,
    pub body: Vec<u8>,
    pub complete: bool,
    pub error: Option<String>,
}

/// Bytes sent on the connection right behind every complete request of this process (a stray
/// empty line, a pipelined second request): one job runs at a time in a worker process.
static TRAILER: std::sync::Mutex<Vec<u8>> = std::sync::Mutex::new(Vec::new());

pub fn set_trailer(b: &[u8]) {
    *TRAILER.lock().unwrap() = b.to_vec();
}

fn encode(req: &Req) -> Vec<u8> {
    let mut out = encode_request(req);
    if req.truncate_body.is_none() {
        out.extend(TRAILER.lock().unwrap().iter());
    }
    out
}

fn encode_request(req: &Req) -> Vec<u8> {
    let mut out = Vec::new();
    out.extend(format!("{} {} HTTP/1.1\r\nHost: localhost\r\n", req.method, req.target).as_bytes());
    for (k, v) in &req.headers {
        out.extend(k.as_bytes());
        out.extend(b": ");
        out.extend(v);
        out.extend(b"\r\n");
    }
    match &req.body {
        Some(b) if req.chunked && req.truncate_body.is_some() => {
            let k = req.truncate_body.unwrap().min(b.len());
            out.extend(b"Transfer-Encoding: chunked\r\n\r\n");
            out.extend(format!("{:x}\r\n", k).as_bytes());
            out.extend(&b[..k]);
            out.extend(b"\r\n");
        }
        Some(b) if req.truncate_body.is_some() => {
            let k = req.truncate_body.unwrap().min(b.len());
            out.extend(format!("Content-Length: {}\r\n\r\n", b.len()).as_bytes());
            out.extend(&b[..k]);
        }
        Some(b) if req.chunked => {
            out.extend(b"Transfer-Encoding: chunked\r\n\r\n");
            for chunk in b.chunks(16 * 1024) {
                out.extend(format!("{:x}\r\n", chunk.len()).as_bytes());
                out.extend(chunk);
                out.extend(b"\r\n");
            }
            out.extend(b"0\r\n\r\n");
        }
        Some(b) => {
            out.extend(format!("Content-Length: {}\r\n\r\n", b.len()).as_bytes());
            out.extend(b);
        }
        None => out.extend(b"\r\n"),
    }
    out
}

pub struct Conn {
    s: UnixStream,
    buf: Vec<u8>,
}

impl Conn {
    pub fn open(sock: &std::path::Path) -> std::io::Result<Conn> {
        let s = UnixStream::connect(sock)?;
        s.set_read_timeout(Some(Duration::from_millis(50)))?;
        s.set_write_timeout(Some(Duration::from_secs(5)))?;
        Ok(Conn { s, buf: vec![] })
    }

    /// read more bytes; Ok(0) = EOF, Err(WouldBlock/TimedOut) = nothing yet
    fn fill(&mut self) -> std::io::Result<usize> {
        let mut tmp = [0u8; 65536];
        let n = self.s.read(&mut tmp)?;
        self.buf.extend(&tmp[..n]);
        Ok(n)
    }

    fn fill_until(&mut self, deadline: Instant, mut done: impl FnMut(&[u8]) -> bool) -> Result<(), String> {
        loop {
            if done(&self.buf) {
                return Ok(());
            }
            if Instant::now() > deadline {
                return Err("timeout".into());
            }
            match self.fill() {
                Ok(0) => return Err("eof".into()),
                Ok(_) => {}
                Err(e) if e.kind() == std::io::ErrorKind::WouldBlock || e.kind() == std::io::ErrorKind::TimedOut => {}
                Err(e) => return Err(format!("io: {}", e)),
            }
        }
    }

    /// Send one request and read one response. For streaming (follow) responses `stream_for`
    /// bounds how long body bytes are collected once the headers have arrived.
    pub fn roundtrip(&mut self, req: &Req, stream_for: Option<Duration>) -> Resp {
        let mut resp = Resp::default();
        if let Err(e) = self.s.write_all(&encode(req)) {
            resp.error = Some(format!("write: {}", e));
            return resp;
        }
        if req.truncate_body.is_some() {
            let _ = self.s.shutdown(std::net::Shutdown::Write);
        }
        let deadline = Instant::now() + Duration::from_secs(10);
        let find = |b: &[u8]| b.windows(4).position(|w| w == b"\r\n\r\n");
        if let Err(e) = self.fill_until(deadline, |b| find(b).is_some()) {
            resp.error = Some(format!("no response head: {}", e));
            return resp;
        }
        let hend = find(&self.buf).unwrap();
        let head = String::from_utf8_lossy(&self.buf[..hend]).to_string();
        self.buf.drain(..hend + 4);
        let mut lines = head.split("\r\n");
        let status_line = lines.next().unwrap_or("");
        resp.status = status_line.split(' ').nth(1).and_then(|s| s.parse().ok()).unwrap_or(0);
        for l in lines {
            if let Some((k, v)) = l.split_once(':') {
                resp.headers.push((k.trim().to_ascii_lowercase(), v.trim().to_string()));
            }
        }
        let hdr = |k: &str| resp.headers.iter().find(|(a, _)| a == k).map(|(_, v)| v.clone());
        let no_body = req.method == "HEAD" || resp.status == 204 || resp.status == 304 || resp.status / 100 == 1;
        if no_body {
            resp.complete = true;
            return resp;
        }
        if let Some(cl) = hdr("content-length").and_then(|v| v.parse::<usize>().ok()) {
            match self.fill_until(deadline, |b| b.len() >= cl) {
                Ok(()) => {
                    resp.body = self.buf.drain(..cl).collect();
                    resp.complete = true;
                }
                Err(e) => resp.error = Some(format!("body: {}", e)),
            }
            return resp;
        }
        let chunked = hdr("transfer-encoding").map(|v| v.contains("chunked")).unwrap_or(false);
        if chunked {
            let body_deadline = stream_for.map(|d| Instant::now() + d).unwrap_or(deadline);
            loop {
                // chunk size line
                if self.fill_until(body_deadline, |b| b.windows(2).any(|w| w == b"\r\n")).is_err() {
                    break;
                }
                let le = self.buf.windows(2).position(|w| w == b"\r\n").unwrap();
                let size = usize::from_str_radix(String::from_utf8_lossy(&self.buf[..le]).split(';').next().unwrap_or("").trim(), 16);
                let Ok(size) = size else {
                    resp.error = Some("bad chunk size".into());
                    break;
                };
                self.buf.drain(..le + 2);
                if self.fill_until(body_deadline, |b| b.len() >= size + 2).is_err() {
                    break;
                }
                resp.body.extend(self.buf.drain(..size));
                self.buf.drain(..2);
                if size == 0 {
                    resp.complete = true;
                    break;
                }
            }
            return resp;
        }
        // body delimited by connection close
        let body_deadline = stream_for.map(|d| Instant::now() + d).unwrap_or(deadline);
        let _ = self.fill_until(body_deadline, |_| false);
        resp.body = std::mem::take(&mut self.buf);
        resp.complete = true;
        resp
    }
}

impl Conn {
    /// Send a request and read only the response head (for streaming responses).
    pub fn start(&mut self, req: &Req) -> Resp {
        let mut resp = Resp::default();
        if let Err(e) = self.s.write_all(&encode(req)) {
            resp.error = Some(format!("write: {}", e));
            return resp;
        }
        let deadline = Instant::now() + Duration::from_secs(10);
        let find = |b: &[u8]| b.windows(4).position(|w| w == b"\r\n\r\n");
        if let Err(e) = self.fill_until(deadline, |b| find(b).is_some()) {
            resp.error = Some(format!("no response head: {}", e));
            return resp;
        }
        let hend = find(&self.buf).unwrap();
        let head = String::from_utf8_lossy(&self.buf[..hend]).to_string();
        self.buf.drain(..hend + 4);
        let mut lines = head.split("\r\n");
        resp.status = lines.next().unwrap_or("").split(' ').nth(1).and_then(|s| s.parse().ok()).unwrap_or(0);
        for l in lines {
            if let Some((k, v)) = l.split_once(':') {
                resp.headers.push((k.trim().to_ascii_lowercase(), v.trim().to_string()));
            }
        }
        resp
    }

    /// Next chunk of a chunked streaming body; None on timeout / end.
    pub fn next_chunk(&mut self, deadline: Instant) -> Option<Vec<u8>> {
        if self.fill_until(deadline, |b| b.windows(2).any(|w| w == b"\r\n")).is_err() {
            return None;
        }
        let le = self.buf.windows(2).position(|w| w == b"\r\n").unwrap();
        let size = usize::from_str_radix(String::from_utf8_lossy(&self.buf[..le]).split(';').next().unwrap_or("").trim(), 16).ok()?;
        self.buf.drain(..le + 2);
        if self.fill_until(deadline, |b| b.len() >= size + 2).is_err() {
            return None;
        }
        let out: Vec<u8> = self.buf.drain(..size).collect();
        self.buf.drain(..2);
        if size == 0 {
            return None;
        }
        Some(out)
    }
}

pub fn once(sock: &std::path::Path, req: &Req) -> Resp {
    match Conn::open(sock) {
        Ok(mut c) => c.roundtrip(req, None),
        Err(e) => Resp {
            error: Some(format!("connect: {}", e)),
            ..Default::default()
        },
    }
}
