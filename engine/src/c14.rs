//! C14: a handler sees each frame of its context once, in order, never its own output, never
//! stale registration traffic of its name, never another context; env persists between calls.
use std::collections::{BTreeSet, HashSet};
use std::time::Duration;

use scru128::Scru128Id;
use serde_json::{json, Value};

use xs::store::Frame;

use crate::common::{self, Report, Violation};
use crate::e5::{is_boot, meta_str, Serve, World};

pub struct F {
    pub kind: String,
    pub msg: String,
}

fn script_p(resume: &str, pulse: bool) -> String {
    script(resume).replacen("  run:", if pulse { "  pulse: 15\n  run:" } else { "  run:" }, 1)
}

fn script(resume: &str) -> String {
    let r = if resume == "tail" { String::new() } else { format!("  resume_from: \"{}\"\n", resume) };
    format!(
        "$env.n = 0\n\ndef --env bump [] {{\n  $env.n = $env.n + 1\n  $env.n\n}}\n\n{{\n{}  run: {{|frame|\n    let n = (bump)\n    if $frame.topic == \"slowpre\" {{ sleep 40ms }}\n    if $frame.topic == \"g.out\" {{ null | .append relay --meta $frame.meta }}\n    {{n: $n, t: $frame.topic}}\n  }}\n}}",
        r
    )
}

/// a second handler in the same context that answers only trigger frames
fn other_script() -> String {
    "{run: {|frame| if not ($frame.topic | str starts-with \"trigger\") { return }; \"g\"}}".to_string()
}

pub fn run_case(case: &Value) -> (Vec<F>, String) {
    let mut fs = vec![];
    let resume = case["resume"].as_str().unwrap();
    let old_instance = case["old_instance"].as_bool().unwrap();
    let second = case["second_handler"].as_bool().unwrap();
    let burst = case["burst"].as_u64().unwrap() as usize;
    let label = case.to_string();
    // slow replay: a 2-slot delivery buffer and a closure that takes 40 ms per historical frame
    // keep the replay going while the burst is appended (the frames of the burst are then older
    // than the threshold marker of the subscription and still have to be processed)
    let slow = case["slow_replay"].as_bool().unwrap_or(false);
    xs::verif::set_caps(None, if slow { Some(2) } else { None });
    let w = World::start(Serve { handlers: true, ..Default::default() });
    let ctx = w.ctx_a;
    let other = w.ctx_b;
    // pre-history
    let p0 = w.append_c("pre0", ctx, None, None);
    if slow {
        for _ in 0..6 {
            w.append_c("slowpre", ctx, None, None);
        }
    }
    let pre_other = w.append_c("pre-other", other, None, None);
    if old_instance {
        // an earlier instance of the same name: its registration traffic and its output are history
        let old = w.append_c("h.register", ctx, Some(&script("tail")), None);
        w.wait(|f| f.topic == "h.registered" && meta_str(f, "handler_id") == Some(old.id.to_string()), 20.0).expect("harness: old instance");
        let t = w.append_c("old-trigger", ctx, None, None);
        w.wait(|f| f.topic == "h.out" && meta_str(f, "frame_id") == Some(t.id.to_string()), 20.0).expect("harness: old output");
        let u = w.append_c("h.unregister", ctx, None, None);
        w.wait(|f| f.topic == "h.unregistered" && meta_str(f, "frame_id") == Some(u.id.to_string()), 20.0).expect("harness: old stop");
    }
    let p1 = w.append_c("pre1", ctx, None, None);
    if second {
        let g = w.append_c("g.register", ctx, Some(&other_script()), None);
        w.wait(|f| f.topic == "g.registered" && meta_str(f, "handler_id") == Some(g.id.to_string()), 20.0).expect("harness: second handler");
    }
    // a frame of the context that carries the stamp of some *other* handler: must be seen
    let stamped = w.append_c("stamped", ctx, None, Some(json!({"handler_id": p0.id.to_string(), "frame_id": p0.id.to_string()})));
    let _ = stamped;
    // the resume point of `after`: the oldest frame, the newest one, or an id of another context
    let after_id = match case["after"].as_str().unwrap_or("p0") {
        "p1" => p1.id,
        "other" => pre_other.id,
        "last" => w.store.read_sync(None, None, Some(ctx)).last().map(|f| f.id).unwrap_or(p0.id),
        _ => p0.id,
    };
    let resume_s = match resume {
        "after" => after_id.to_string(),
        x => x.to_string(),
    };
    let pulse = case["pulse"].as_bool().unwrap_or(false);
    let reg = w.append_c("h.register", ctx, Some(&script_p(&resume_s, pulse)), None);
    let registered = w.wait(|f| f.topic == "h.registered" && meta_str(f, "handler_id") == Some(reg.id.to_string()), 20.0);
    let Some(registered) = registered else {
        fs.push(F { kind: "c14.harness".into(), msg: format!("{}: handler did not register", label) });
        w.stop();
        return (fs, "noreg".into());
    };
    // burst from two writers while the handler is busy, plus traffic in another context
    let eph = case["eph"].as_bool().unwrap_or(false);
    let mut ths = vec![];
    for wi in 0..2 {
        let store = w.store.clone();
        ths.push(std::thread::spawn(move || {
            for k in 0..burst {
                if eph {
                    let _ = store.append(Frame::builder(format!("eph.w{}.{}", wi, k), ctx).ttl(xs::store::TTL::Ephemeral).build());
                }
                let _ = store.append(Frame::builder(format!("trigger.w{}.{}", wi, k), ctx).build());
                let _ = store.append(Frame::builder(format!("foreign.w{}.{}", wi, k), other).build());
            }
        }));
    }
    for t in ths {
        let _ = t.join();
    }
    // quiescence: the handler answers in order, and so does the second one
    std::thread::sleep(Duration::from_millis(if second { 30 } else { 0 }));
    let mut last = w.append_c("zz.last", ctx, None, None);
    for _ in 0..3 {
        if w.wait(|f| f.topic == "h.out" && meta_str(f, "frame_id") == Some(last.id.to_string()), 20.0).is_none() {
            fs.push(F { kind: "c14.dead".into(), msg: format!("{}: the handler stopped answering", label) });
            w.stop();
            return (fs, "dead".into());
        }
        // outputs of the second handler may still arrive and be processed: settle until stable
        std::thread::sleep(Duration::from_millis(20));
        let n1 = w.snapshot().len();
        last = w.append_c("zz.last", ctx, None, None);
        w.wait(|f| f.topic == "h.out" && meta_str(f, "frame_id") == Some(last.id.to_string()), 20.0);
        if w.snapshot().len() == n1 + 2 {
            break;
        }
    }
    let log = w.snapshot();
    // the instance's own emissions are recognised by construction (only it emits these topics after
    // its registration), not by the stamp the subject puts on them
    let is_own = |f: &Frame| (f.topic == "h.out" || f.topic == "relay") && f.id > reg.id;
    let mine: Vec<&Frame> = log.iter().filter(|f| f.topic == "h.out" && f.id > reg.id && f.context_id == ctx).collect();
    // invocation sequence: (frame_id, n, topic seen)
    let mut seq: Vec<(String, i64, String)> = vec![];
    for f in &mine {
        let c: Value = w.content(f).and_then(|c| serde_json::from_str(&c).ok()).unwrap_or(Value::Null);
        seq.push((meta_str(f, "frame_id").unwrap_or_default(), c["n"].as_i64().unwrap_or(-1), c["t"].as_str().unwrap_or("").to_string()));
    }
    // env: one at a time, counter carried from call to call
    for (i, s) in seq.iter().enumerate() {
        if s.1 != (i as i64) + 1 {
            fs.push(F { kind: "c14.env".into(), msg: format!("{}: invocation #{} saw counter {} (expected {}): state was lost or calls overlapped", label, i + 1, s.1, i + 1) });
            break;
        }
    }
    // expected: the context's stream after the resume point
    // (ephemeral frames are not stored: they are taken from the observer's log)
    let mut stream: Vec<Frame> = w.store.read_sync(None, None, Some(ctx)).collect();
    stream.extend(log.iter().filter(|f| f.context_id == ctx && f.ttl == Some(xs::store::TTL::Ephemeral) && f.topic.starts_with("eph.")).cloned());
    stream.sort_by_key(|f| f.id);
    let start_after: Option<Scru128Id> = match resume {
        "head" => None,
        "after" => Some(after_id),
        _ => Some(registered.id),
    };
    let mut required: Vec<String> = vec![];
    let mut optional: BTreeSet<String> = BTreeSet::new();
    for f in &stream {
        if is_boot(f) {
            continue;
        }
        let own = is_own(f) || meta_str(f, "handler_id") == Some(reg.id.to_string());
        let stale_reg = (f.topic == "h.register" || f.topic == "h.unregister") && f.id <= reg.id;
        if own || stale_reg {
            continue;
        }
        match start_after {
            None => required.push(f.id.to_string()),
            Some(s) if resume == "after" => {
                if f.id > s {
                    required.push(f.id.to_string());
                }
            }
            Some(s) => {
                // tail: frames appended between the register frame and its announcement may or may not be seen
                if f.id > s {
                    required.push(f.id.to_string());
                } else if f.id > reg.id {
                    optional.insert(f.id.to_string());
                }
            }
        }
    }
    let stream_ids: BTreeSet<String> = stream.iter().map(|f| f.id.to_string()).collect();
    let seen: Vec<&(String, i64, String)> = seq.iter().filter(|s| s.2 != "xs.threshold" && s.2 != "xs.pulse").collect();
    let thresholds = seq.iter().filter(|s| s.2 == "xs.threshold").count();
    // once each, in order
    let mut prev: Option<&String> = None;
    let mut dup: HashSet<&String> = HashSet::new();
    for s in &seen {
        if !dup.insert(&s.0) {
            fs.push(F { kind: "c14.twice".into(), msg: format!("{}: invoked twice for frame {} ({})", label, s.0, s.2) });
        }
        if let Some(p) = prev {
            if s.0 <= *p {
                fs.push(F { kind: "c14.order".into(), msg: format!("{}: invoked for {} ({}) after {}", label, s.0, s.2, p) });
            }
        }
        prev = Some(&s.0);
        if !stream_ids.contains(&s.0) {
            let foreign = log.iter().find(|f| f.id.to_string() == s.0).map(|f| f.context_id != ctx).unwrap_or(false);
            fs.push(F { kind: if foreign { "c14.foreign_context".into() } else { "c14.unknown_frame".into() }, msg: format!("{}: invoked for {} ({}) which is not in its context's stream", label, s.0, s.2) });
        }
    }
    let seen_ids: BTreeSet<&String> = seen.iter().map(|s| &s.0).collect();
    for r in &required {
        if !seen_ids.contains(r) {
            let t = stream.iter().find(|f| f.id.to_string() == *r).map(|f| f.topic.clone()).unwrap_or_default();
            fs.push(F { kind: "c14.missed".into(), msg: format!("{}: never invoked for frame {} ({:?}) of its context", label, r, t) });
        }
    }
    let req_set: BTreeSet<&String> = required.iter().collect();
    for s in &seen {
        if !req_set.contains(&s.0) && !optional.contains(&s.0) && stream_ids.contains(&s.0) {
            let f = stream.iter().find(|f| f.id.to_string() == s.0).unwrap();
            let kind = if is_own(f) || meta_str(f, "handler_id") == Some(reg.id.to_string()) {
                "c14.self_loop"
            } else if f.topic == "h.register" || f.topic == "h.unregister" {
                "c14.stale_registration"
            } else {
                "c14.before_resume_point"
            };
            fs.push(F { kind: kind.into(), msg: format!("{}: invoked for frame {} ({:?}) which it must not see", label, s.0, f.topic) });
        }
    }
    let want_thr = if resume == "tail" { 0 } else { 1 };
    if thresholds != want_thr {
        fs.push(F { kind: "c14.threshold".into(), msg: format!("{}: invoked {} times for the threshold marker, expected {}", label, thresholds, want_thr) });
    }
    let outcome = format!("{}:{}:{}", resume, seen.len(), thresholds);
    w.stop();
    xs::verif::set_caps(None, None);
    (fs, outcome)
}

pub fn cases(thorough: bool) -> Vec<Value> {
    let mut v = vec![];
    for resume in ["tail", "head", "after"] {
        for old in [false, true] {
            for second in [false, true] {
                for burst in [0usize, 1, 3] {
                    let _ = thorough;
                    v.push(json!({"resume": resume, "old_instance": old, "second_handler": second, "burst": burst}));
                    if burst > 0 {
                        v.push(json!({"resume": resume, "old_instance": old, "second_handler": second, "burst": burst, "eph": true}));
                    }
                    if resume == "after" {
                        for a in ["p1", "other", "last"] {
                            v.push(json!({"resume": resume, "old_instance": old, "second_handler": second, "burst": burst, "after": a, "eph": burst == 3}));
                        }
                    }
                    if burst == 3 && !old {
                        // with heartbeats: pulses are extra invocations, never replacements
                        v.push(json!({"resume": resume, "old_instance": old, "second_handler": second, "burst": burst, "pulse": true}));
                    }
                }
            }
        }
    }
    for resume in ["head", "after"] {
        for burst in [1usize, 3] {
            v.push(json!({"resume": resume, "old_instance": false, "second_handler": false, "burst": burst, "slow_replay": true, "eph": burst == 3}));
        }
    }
    v
}

pub fn worker() {
    common::worker_loop(move |job| {
        let (fs, outcome) = run_case(&job);
        json!({"findings": fs.iter().map(|f| json!({"kind": f.kind, "msg": f.msg})).collect::<Vec<_>>(), "outcome": outcome})
    });
}

pub fn run(tier: &str, report: &mut Report) {
    let thorough = common::tier_is_thorough(tier);
    let mut cs = cases(thorough);
    // the burst is scheduled by the OS: repeat the bursty cases (each run is one more sampled
    // schedule of an exhaustive case list; the schedule dimension itself is C03's)
    let reps = if thorough { 4 } else { 1 };
    let base = cs.clone();
    for _ in 1..reps {
        cs.extend(base.iter().filter(|c| c["burst"].as_u64().unwrap() > 0).cloned());
    }
    let results = common::pool_map("c14", &[], common::ncpu(), cs.clone());
    let mut outcomes: HashSet<String> = HashSet::new();
    for (c, r) in cs.iter().zip(results.iter()) {
        if r.get("crashed").is_some() {
            eprintln!("HARNESS ERROR: worker crashed on {}: {}", c, r);
            std::process::exit(2);
        }
        outcomes.insert(r["outcome"].as_str().unwrap_or("").to_string());
        for f in r["findings"].as_array().cloned().unwrap_or_default() {
            let kind = f["kind"].as_str().unwrap_or("");
            if kind == "c14.harness" {
                eprintln!("HARNESS ERROR: {}", f["msg"]);
                std::process::exit(2);
            }
            report.add_violation(Violation {
                property: "C14".into(),
                signature: format!("E5:{}:{}", c["resume"].as_str().unwrap_or(""), kind),
                message: f["msg"].as_str().unwrap_or("").to_string(),
                replay: json!({"engine": "c14", "case": c}),
            });
        }
    }
    report.cov("states", json!(cs.len()));
    report.cov("transitions", json!(cs.len() * 8));
    report.cov("traces_validated_against_impl", json!(cs.len()));
    report.cov("cases", json!(cs.len()));
    report.cov("distinct_outcomes", json!(outcomes.len()));
    report.cov("exhaustive", json!(true));
    report.cov("samples", json!(cs.iter().step_by((cs.len() / 4).max(1)).take(4).collect::<Vec<_>>()));
    report.cov("explanation", json!("resume mode (tail / head / after-id) x pre-history with or without an earlier instance of the same name (its registration traffic and output) x a second handler in the same context x bursts of 0/1/3 frames (durable, optionally mixed with ephemeral ones) from two writers into the handler's context and another context while the handler is busy x the after-id resume point (oldest frame / newest frame before registration / the very last frame / an id that belongs to another context); a frame carrying another handler's stamp is always part of the history; slow-replay cases (2-slot delivery buffer, 40 ms per historical frame) in which the burst is appended while the replay is still running; the handler answers every frame with a per-instance counter, so its outputs give the complete invocation sequence, which is compared with the context's stream after the resume point minus own outputs and stale registration traffic. The interleaving of the burst with the handler is the OS's; the schedule dimension of the underlying stream is decided by C03 (all interleavings) and the start-up race by C16."));
}

pub fn replay(v: &Value) -> i32 {
    let (fs, outcome) = run_case(&v["case"]);
    println!("outcome {}", outcome);
    for f in &fs {
        println!("finding {}: {}", f.kind, f.msg);
    }
    if fs.is_empty() {
        0
    } else {
        1
    }
}
