//! E2: controlled scheduler + stateless preemption-bounded DFS over the real threads and tasks.
//!
//! `Ctl` implements `xs::verif::Sched`. Exactly one managed actor runs at a time; all others sit
//! inside `point()`. At a decision point (every live actor parked or finished) each parked actor
//! evaluates its own enabledness on the real object, the state observers run, and one enabled
//! actor is granted according to the choice prefix (default: keep running the same actor).
use std::collections::{BTreeMap, BTreeSet};
use std::sync::{Arc, Condvar, Mutex};
use std::time::{Duration, Instant};

use scru128::Scru128Id;
use xs::verif::{Point, Sched, Who};

#[derive(Clone, Debug, PartialEq)]
enum Status {
    Running,
    Parked,
    Finished,
}

#[derive(Clone, Debug)]
struct Actor {
    who: Who,
    status: Status,
    op: &'static str,
    frame_id: Option<Scru128Id>,
    reported_epoch: u64,
    enabled: bool,
    grants: u64,
}

#[derive(Clone, Debug)]
pub struct Step {
    pub who: Who,
    pub op: &'static str,
    pub frame_id: Option<Scru128Id>,
}

struct Inner {
    actors: Vec<Actor>,
    granted: Option<Who>,
    epoch: u64,
    free_run: bool,
    active: BTreeSet<&'static str>,
    steps: Vec<Step>,
    /// actors of these kinds register themselves at their first point
    auto_kinds: BTreeSet<&'static str>,
}

pub struct Ctl {
    inner: Mutex<Inner>,
    cv: Condvar,
    /// called for every point of every thread (managed or not) that carries a frame
    pub on_frame: Mutex<Option<Box<dyn Fn(&'static str, &xs::store::Frame) + Send + Sync>>>,
}

#[derive(Debug)]
pub enum CtlError {
    Watchdog(String),
}

impl Ctl {
    pub fn new(active: &[&'static str]) -> Arc<Ctl> {
        Arc::new(Ctl {
            inner: Mutex::new(Inner {
                actors: vec![],
                granted: None,
                epoch: 0,
                free_run: false,
                active: active.iter().cloned().collect(),
                steps: vec![],
                auto_kinds: BTreeSet::new(),
            }),
            cv: Condvar::new(),
            on_frame: Mutex::new(None),
        })
    }

    pub fn set_auto_kinds(&self, kinds: &[&'static str]) {
        self.inner.lock().unwrap().auto_kinds = kinds.iter().cloned().collect();
    }

    /// Wait until an actor of `kind` exists (parked or finished).
    pub fn await_kind(&self, kind: &str, timeout: Duration) -> bool {
        let t0 = Instant::now();
        let mut g = self.inner.lock().unwrap();
        loop {
            if g.actors.iter().any(|a| a.who.kind == kind && a.status != Status::Running) {
                return true;
            }
            if t0.elapsed() > timeout {
                return false;
            }
            let (ng, _) = self.cv.wait_timeout(g, Duration::from_millis(20)).unwrap();
            g = ng;
        }
    }

    pub fn is_free_run(&self) -> bool {
        self.inner.lock().unwrap().free_run
    }

    pub fn release_all(&self) {
        let mut g = self.inner.lock().unwrap();
        g.free_run = true;
        self.cv.notify_all();
    }

    pub fn steps(&self) -> Vec<Step> {
        self.inner.lock().unwrap().steps.clone()
    }

    /// Point used by harness-side actors (writers, consumers) with their own readiness test.
    pub fn ext_point(&self, who: Who, op: &'static str, ready: &dyn Fn() -> bool) {
        let p = Point {
            op,
            who: Some(who),
            frame: None,
            ready,
        };
        self.point(&p);
    }

    /// Wait until every live actor is parked or finished, evaluate enabledness, return the
    /// parked actors as (who, op, enabled, grants so far) in registration order.
    pub fn settle(&self, watchdog: Duration) -> Result<Vec<(Who, &'static str, bool, u64)>, CtlError> {
        let t0 = Instant::now();
        let mut g = self.inner.lock().unwrap();
        loop {
            let running: Vec<String> = g
                .actors
                .iter()
                .filter(|a| a.status == Status::Running)
                .map(|a| format!("{:?}@{}", a.who, a.op))
                .collect();
            if running.is_empty() && g.granted.is_none() {
                break;
            }
            if t0.elapsed() > watchdog {
                return Err(CtlError::Watchdog(format!(
                    "actors still running after {:?}: {:?} (granted: {:?})",
                    watchdog, running, g.granted
                )));
            }
            let (ng, _) = self.cv.wait_timeout(g, Duration::from_millis(50)).unwrap();
            g = ng;
        }
        g.epoch += 1;
        let epoch = g.epoch;
        self.cv.notify_all();
        loop {
            let waiting = g
                .actors
                .iter()
                .any(|a| a.status == Status::Parked && a.reported_epoch != epoch);
            if !waiting {
                break;
            }
            if t0.elapsed() > watchdog {
                return Err(CtlError::Watchdog("actors did not report enabledness".into()));
            }
            let (ng, _) = self.cv.wait_timeout(g, Duration::from_millis(50)).unwrap();
            g = ng;
        }
        Ok(g.actors
            .iter()
            .filter(|a| a.status == Status::Parked)
            .map(|a| (a.who, a.op, a.enabled, a.grants))
            .collect())
    }

    pub fn grant(&self, who: Who) {
        let mut g = self.inner.lock().unwrap();
        let (op, frame_id) = {
            let a = g.actors.iter_mut().find(|a| a.who == who).expect("grant: unknown actor");
            assert!(a.status == Status::Parked, "grant: actor not parked");
            a.grants += 1;
            (a.op, a.frame_id)
        };
        g.steps.push(Step { who, op, frame_id });
        g.granted = Some(who);
        self.cv.notify_all();
    }

    pub fn all_finished(&self, whos: &[Who]) -> bool {
        let g = self.inner.lock().unwrap();
        whos.iter().all(|w| {
            g.actors
                .iter()
                .find(|a| a.who == *w)
                .map(|a| a.status == Status::Finished)
                .unwrap_or(false)
        })
    }

    pub fn statuses(&self) -> BTreeMap<String, String> {
        let g = self.inner.lock().unwrap();
        g.actors
            .iter()
            .map(|a| (format!("{}{}", a.who.kind, a.who.n), format!("{:?}@{}", a.status, a.op)))
            .collect()
    }
}

impl Sched for Ctl {
    fn point(&self, p: &Point<'_>) {
        if let Some(f) = p.frame {
            if let Some(cb) = self.on_frame.lock().unwrap().as_ref() {
                cb(p.op, f);
            }
        }
        let Some(who) = p.who else { return };
        let mut g = self.inner.lock().unwrap();
        if g.free_run || !g.active.contains(p.op) {
            return;
        }
        let idx = match g.actors.iter().position(|a| a.who == who) {
            Some(i) => i,
            None if g.auto_kinds.contains(who.kind) => {
                g.actors.push(Actor {
                    who,
                    status: Status::Running,
                    op: "auto",
                    frame_id: None,
                    reported_epoch: 0,
                    enabled: false,
                    grants: 0,
                });
                g.actors.len() - 1
            }
            // a managed identity we were never told about: let it run
            None => return,
        };
        {
            let a = &mut g.actors[idx];
            a.status = Status::Parked;
            a.op = p.op;
            a.frame_id = p.frame.map(|f| f.id);
            a.reported_epoch = 0;
        }
        self.cv.notify_all();
        loop {
            if g.free_run {
                g.actors[idx].status = Status::Running;
                return;
            }
            if g.granted == Some(who) {
                g.granted = None;
                g.actors[idx].status = Status::Running;
                self.cv.notify_all();
                return;
            }
            let epoch = g.epoch;
            if g.actors[idx].reported_epoch != epoch && epoch > 0 {
                let en = (p.ready)();
                let a = &mut g.actors[idx];
                a.enabled = en;
                a.reported_epoch = epoch;
                self.cv.notify_all();
            }
            g = self.cv.wait(g).unwrap();
        }
    }

    fn spawned(&self, who: Who) {
        let mut g = self.inner.lock().unwrap();
        if g.actors.iter().any(|a| a.who == who) {
            return;
        }
        g.actors.push(Actor {
            who,
            status: Status::Running,
            op: "spawned",
            frame_id: None,
            reported_epoch: 0,
            enabled: false,
            grants: 0,
        });
    }

    fn finished(&self, who: Who) {
        let mut g = self.inner.lock().unwrap();
        let mut known = false;
        if let Some(a) = g.actors.iter_mut().find(|a| a.who == who) {
            a.status = Status::Finished;
            a.op = "finished";
            known = true;
        }
        if known && !g.free_run {
            g.steps.push(Step {
                who,
                op: "finished",
                frame_id: None,
            });
        }
        self.cv.notify_all();
    }
}

/// Guard for harness-side actor threads.
pub struct ExtGuard {
    pub ctl: Arc<Ctl>,
    pub who: Who,
}

impl Drop for ExtGuard {
    fn drop(&mut self) {
        xs::verif::set_actor(None);
        self.ctl.finished(self.who);
    }
}

pub fn label(w: &Who) -> String {
    format!("{}{}", w.kind, w.n)
}
