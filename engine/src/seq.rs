//! E1: explicit-state breadth-first search over store histories. Every transition is executed
//! on a fresh real store by replaying the representative history of the parent state plus one
//! operation; states are merged on the canonical form computed from the real store's raw
//! contents plus the model's obligations.
use std::collections::HashSet;
use std::time::Instant;

use serde_json::{json, Value};

use crate::common::{self, Report, Violation};
use crate::model::{self, Config, Ctx, Exec, Op};
use xs::store::TTL;

pub struct Params {
    pub prop: &'static str,
    pub max_depth: usize,
    pub time_cap_s: u64,
}

pub fn params(prop: &str, tier: &str) -> Params {
    let thorough = common::tier_is_thorough(tier);
    let (q, t, qcap, tcap) = match prop {
        "C01" => (4, 6, 90, 900),
        "C05" => (4, 5, 40, 900),
        "C20" => (3, 4, 40, 1200),
        "C10" => (4, 5, 40, 1200),
        "C06" => (3, 5, 40, 1200),
        "C07" => (4, 6, 40, 900),
        "C08" => (4, 5, 60, 1500),
        "C09" => (4, 5, 60, 1500),
        _ => (3, 5, 40, 900),
    };
    let prop_static: &'static str = Box::leak(prop.to_string().into_boxed_str());
    let depth_override: Option<usize> = std::env::var("XSMC_DEPTH").ok().and_then(|s| s.parse().ok());
    Params {
        prop: prop_static,
        max_depth: depth_override.unwrap_or(if thorough { t } else { q }),
        time_cap_s: if thorough { tcap } else { qcap },
    }
}

pub fn config_for(prop: &str) -> Config {
    let mut c = Config::default();
    match prop {
        "C05" => {
            c.topics = vec!["".into(), "a".into(), "ab".into(), "a\u{1}".into(), "a\u{ff}".into(), "日".into()];
            c.auto_battery = false;
        }
        "C07" => {
            c.auto_battery = false;
        }
        "C08" | "C09" => {
            c.settle_lookahead = true;
            c.light_battery = true;
        }
        "C01" => {
            c.settle_lookahead = true;
        }
        "C06" => {
            // zero context + two registered contexts with numerically adjacent ids
            c.preseed = vec![Op::Register { ctx: Ctx::Zero, ttl: "".into() }, Op::ImportRegAdjacent { of: 0 }];
        }
        "C10" => {
            c.settle_lookahead = true;
            c.light_battery = true;
            c.check_follower = false;
        }
        "C20" => {
            c.auto_battery = false;
            c.check_follower = false;
            c.extra = Some(crate::c20::check_export_import);
        }
        _ => {}
    }
    c
}

fn time_ttl() -> String {
    format!("time:{}", model::TIME_TTL_MS)
}

fn usable_regs(e: &Exec) -> Vec<Ctx> {
    e.ctxs
        .iter()
        .enumerate()
        .filter(|(_, c)| e.usable(c))
        .map(|(k, _)| Ctx::Reg(k))
        .collect()
}

fn time_frames(e: &Exec) -> Vec<(usize, u64)> {
    e.live
        .values()
        .enumerate()
        .filter_map(|(r, m)| Exec::expiry(&m.frame).map(|x| (r, x)))
        .collect()
}

fn clock_ops(e: &Exec, deltas: &[i64], out: &mut Vec<Op>) {
    for (r, exp) in time_frames(e) {
        for d in deltas {
            let t = (exp as i64 + d) as u64;
            let ok = match e.now {
                Some(n) => t > n,
                None => true,
            };
            if ok {
                out.push(Op::Clock { rank: r, delta: *d });
            }
        }
    }
}

/// the composite expire-notice-collect step for every time frame that is not yet expired
fn expire_collect_ops(e: &Exec, out: &mut Vec<Op>) {
    for (r, exp) in time_frames(e) {
        if e.now.map(|n| exp > n).unwrap_or(true) {
            out.push(Op::ExpireCollect { rank: r });
        }
    }
}

fn gc_ops(e: &Exec, step: bool, out: &mut Vec<Op>) {
    let pending = e.store().verif_hooks().gc_pending();
    if !pending.is_empty() {
        out.push(Op::GcRun);
        if step && pending.len() > 1 {
            out.push(Op::GcStep);
        }
    }
    if e.live.values().any(|m| e.expired(&m.frame) && !m.covered) {
        out.push(Op::ReadBattery);
    }
}

/// The operation menu of a property in a given state, simplest first.
pub fn menu(prop: &str, tier: &str, depth: usize, e: &Exec) -> Vec<Op> {
    let thorough = common::tier_is_thorough(tier);
    let mut out = vec![];
    let n = e.live.len();
    let regs = usable_regs(e);
    let app = |topic: &str, ctx: Ctx, ttl: &str| Op::Append {
        topic: topic.to_string(),
        ctx,
        ttl: ttl.to_string(),
        meta: None,
        body: None,
    };
    let reopen_ok = !e.reopened && n > 0 && (thorough || depth <= 2);
    match prop {
        "C01" => {
            let mut ctxs = vec![Ctx::Zero];
            ctxs.extend(regs.iter().cloned());
            for c in &ctxs {
                for t in ["a", "ab"] {
                    out.push(app(t, c.clone(), ""));
                }
                out.push(app("a", c.clone(), &time_ttl()));
            }
            if thorough || !e.live.values().any(|m| matches!(m.frame.ttl, Some(TTL::Head(_)))) {
                out.push(app("ab", Ctx::Zero, "head:1"));
            }
            if thorough || !e.live.values().any(|m| m.frame.hash.is_some()) {
                out.push(Op::Append { topic: "a".into(), ctx: ctxs.last().unwrap().clone(), ttl: "".into(), meta: Some(json!({"k": [1, "x", null], "n": 1.5})), body: Some("body".into()) });
            }
            if thorough {
                out.push(app("", Ctx::Zero, ""));
                out.push(app("日", Ctx::Zero, ""));
            }
            // a meta at the edge of what a frame can carry: accepted or refused, never poison
            if n <= 1 {
                out.push(Op::Append { topic: "a".into(), ctx: Ctx::Zero, ttl: "".into(), meta: Some(json!({"$deep": 127})), body: None });
            }
            if e.ctxs.len() < if thorough { 2 } else { 1 } {
                out.push(Op::Register { ctx: Ctx::Zero, ttl: "".into() });
            }
            for r in 0..n {
                out.push(Op::Remove { rank: r });
            }
            if n > 0 {
                out.push(Op::ImportOlder { topic: "a".into(), ctx: Ctx::Zero, ttl: "".into() });
                // a frame older than the registration of the context it is imported into
                if let Some(r) = regs.first() {
                    out.push(Op::ImportOlder { topic: "a".into(), ctx: r.clone(), ttl: "".into() });
                }
                out.push(Op::ImportAfter { rank: 0, topic: "ab".into(), ctx: ctxs.last().unwrap().clone(), ttl: "".into() });
                out.push(Op::ImportDup { rank: n - 1 });
                // a frame from a machine whose clock runs ahead (once per history)
                let ahead = scru128::new().timestamp() + 60_000;
                if !e.live.keys().any(|i| i.timestamp() > ahead) {
                    out.push(Op::ImportFuture { topic: "a".into(), ctx: ctxs.last().unwrap().clone(), ttl: "".into() });
                }
                if n <= 2 || thorough {
                    out.push(Op::ImportOver { rank: n - 1, topic: "ab".into(), ctx: ctxs.last().unwrap().clone(), ttl: "".into() });
                }
            }
            clock_ops(e, if thorough { &[-1, 0, 1] } else { &[0] }, &mut out);
            gc_ops(e, false, &mut out);
            if n > 0 && e.flushed.is_empty() {
                out.push(Op::Flush { part: "all".into() });
            }
            if thorough && n > 0 && !e.flushed.contains("idx_context") {
                out.push(Op::Flush { part: "idx_context".into() });
            }
            if reopen_ok {
                out.push(Op::Reopen);
            }
        }
        "C05" => {
            // adversarial topics around the ctx||topic||0x00||id key layout
            let topics: Vec<&str> = if thorough {
                vec!["a", "ab", "", "a\u{1}", "a\u{ff}", "日"]
            } else {
                vec!["a", "ab", "", "a\u{1}"]
            };
            let mut ctxs = vec![Ctx::Zero];
            ctxs.extend(regs.iter().cloned());
            for c in &ctxs {
                for t in &topics {
                    out.push(app(t, c.clone(), ""));
                }
            }
            out.push(app("a", Ctx::Zero, "head:1"));
            // a frame that expires and is collected: the lookups agree before, between and after
            if !e.live.values().any(|m| matches!(m.frame.ttl, Some(TTL::Time(_)))) {
                out.push(app("a", Ctx::Zero, &time_ttl()));
            }
            expire_collect_ops(e, &mut out);
            out.push(app("a\0b", Ctx::Zero, ""));
            out.push(Op::ImportNul);
            if e.ctxs.is_empty() {
                out.push(Op::Register { ctx: Ctx::Zero, ttl: "".into() });
            } else if e.ctxs.len() == 1 {
                out.push(Op::ImportRegAdjacent { of: 0 });
            }
            for r in 0..n {
                out.push(Op::Remove { rank: r });
            }
            if n > 0 {
                out.push(Op::ImportOlder { topic: "a".into(), ctx: ctxs.last().unwrap().clone(), ttl: "".into() });
                out.push(Op::ImportAfter { rank: 0, topic: "a".into(), ctx: ctxs.last().unwrap().clone(), ttl: "".into() });
            }
            // a different frame imported under a stored id: other topic, other context
            if n > 0 {
                out.push(Op::ImportNulOver { rank: n - 1 });
                out.push(Op::ImportOver { rank: n - 1, topic: "ab".into(), ctx: Ctx::Zero, ttl: "".into() });
                out.push(Op::ImportOver { rank: 0, topic: "a".into(), ctx: ctxs.last().unwrap().clone(), ttl: "".into() });
            }
            gc_ops(e, false, &mut out);
            if thorough && n > 0 && e.flushed.is_empty() {
                out.push(Op::Flush { part: "idx_topic".into() });
            }
            if reopen_ok {
                out.push(Op::Reopen);
            }
        }
        "C07" => {
            if e.ctxs.len() < 2 {
                out.push(Op::Register { ctx: Ctx::Zero, ttl: "".into() });
            }
            if e.ctxs.len() < 2 {
                out.push(Op::Register { ctx: Ctx::Zero, ttl: "ephemeral".into() });
                out.push(Op::Register { ctx: Ctx::Zero, ttl: "head:1".into() });
                if thorough {
                    out.push(Op::Register { ctx: Ctx::Zero, ttl: time_ttl() });
                }
            }
            gc_ops(e, false, &mut out);
            // every context of the alphabet: zero, registered, unregistered-again, never registered
            let mut ctxs = vec![Ctx::Zero, Ctx::Never];
            for k in 0..e.ctxs.len() {
                ctxs.push(Ctx::Reg(k));
            }
            for c in &ctxs {
                out.push(app("a", c.clone(), ""));
            }
            for c in ctxs.iter().skip(1) {
                out.push(Op::Register { ctx: c.clone(), ttl: "".into() });
            }
            // look-alike topics must not register anything; any frame's id used as a context
            if !e.live.values().any(|m| m.frame.topic.starts_with("xs.context.")) {
                out.push(app("xs.context.x", Ctx::Zero, ""));
            }
            if thorough && !e.live.values().any(|m| m.frame.topic == "xs.contexts") {
                out.push(app("xs.contexts", Ctx::Zero, ""));
            }
            for (r, m) in e.live.values().enumerate() {
                if m.frame.topic != "xs.context" && m.frame.topic != "a" {
                    out.push(app("a", Ctx::OfFrame(r), ""));
                }
            }
            if thorough {
                out.push(app("a", Ctx::Never, "ephemeral"));
            }
            // removal of registration frames (and of ordinary frames)
            for r in 0..n {
                out.push(Op::Remove { rank: r });
            }
            if e.ctxs.len() == 1 {
                out.push(Op::ImportRegAdjacent { of: 0 });
            }
            if e.ctxs.len() < 2 && n > 0 {
                out.push(Op::ImportRegOlder);
            }
            // a registration the store refuses: under a fresh id, under the id of a stored frame
            if n <= 2 {
                out.push(Op::ImportRegRefused { over: None });
                if let Some((r, _)) = e.live.values().enumerate().find(|(_, m)| m.frame.topic != "xs.context") {
                    out.push(Op::ImportRegRefused { over: Some(r) });
                }
            }
            // a registration imported under the id of an ordinary frame, an ordinary frame
            // imported under the id of a registration
            for (r, m) in e.live.values().enumerate() {
                if m.frame.topic == "xs.context" {
                    out.push(Op::ImportOver { rank: r, topic: "a".into(), ctx: Ctx::Zero, ttl: "".into() });
                } else if e.ctxs.len() < 2 {
                    out.push(Op::ImportOver { rank: r, topic: "xs.context".into(), ctx: Ctx::Zero, ttl: "".into() });
                }
            }
            if reopen_ok || (!e.reopened && n > 0 && depth <= 3) {
                out.push(Op::Reopen);
            }
        }
        "C08" | "C09" => {
            let mut ctxs = vec![Ctx::Zero];
            ctxs.extend(regs.iter().cloned());
            let ttls: Vec<String> = if thorough {
                vec!["".into(), "head:1".into(), "head:2".into(), time_ttl(), "ephemeral".into()]
            } else {
                vec!["".into(), "head:1".into(), "head:2".into(), time_ttl(), "ephemeral".into()]
            };
            for c in &ctxs {
                for t in ["a", "ab"] {
                    for ttl in &ttls {
                        if !thorough && t == "ab" && (ttl == "head:2" || ttl == "ephemeral") {
                            continue;
                        }
                        if !thorough && *c != Ctx::Zero && (ttl == "head:2" || ttl == "ephemeral" || ttl.starts_with("time")) {
                            continue;
                        }
                        out.push(app(t, c.clone(), ttl));
                    }
                }
            }
            // an append with a head:N request that the store refuses (meta at the nesting limit):
            // a refused frame has no effect, in particular no eviction
            if n >= 1 && n <= 2 {
                out.push(Op::Append { topic: "a".into(), ctx: Ctx::Zero, ttl: "head:1".into(), meta: Some(json!({"$deep": 127})), body: None });
            }
            if e.ctxs.is_empty() {
                out.push(Op::Register { ctx: Ctx::Zero, ttl: "".into() });
            } else if e.ctxs.len() == 1 {
                // a registration asked for with a head TTL is still kept forever, and evicts nothing
                out.push(Op::Register { ctx: Ctx::Zero, ttl: "head:1".into() });
            }
            for r in 0..n {
                out.push(Op::Remove { rank: r });
            }
            // a frame moved to another context by an import under its id (same topic): whatever the
            // old context's topic sweeps do afterwards must not touch it (seed C08-r7: a stale
            // topic-index entry of the old context makes a later head:N sweep there delete it)
            if let Some(target) = regs.last() {
                if let Some((r, _)) = e.live.values().enumerate().find(|(_, m)| m.frame.topic == "a" && m.frame.context_id == xs::store::ZERO_CONTEXT) {
                    out.push(Op::ImportOver { rank: r, topic: "a".into(), ctx: target.clone(), ttl: "".into() });
                }
                if let Some((r, _)) = e.live.values().enumerate().find(|(_, m)| m.frame.topic == "a" && m.frame.context_id != xs::store::ZERO_CONTEXT) {
                    out.push(Op::ImportOver { rank: r, topic: "a".into(), ctx: Ctx::Zero, ttl: "".into() });
                }
            }
            clock_ops(e, &[-1, 0, 1], &mut out);
            expire_collect_ops(e, &mut out);
            gc_ops(e, true, &mut out);
            if reopen_ok {
                out.push(Op::Reopen);
            }
        }
        "C06" => {
            // the same topics in every context
            let ctxs = vec![Ctx::Zero, Ctx::Reg(0), Ctx::Reg(1)];
            for c in &ctxs {
                out.push(app("a", c.clone(), ""));
                if thorough || *c != Ctx::Zero {
                    out.push(app("ab", c.clone(), ""));
                }
                if thorough || *c == Ctx::Reg(0) {
                    out.push(app("a", c.clone(), "head:1"));
                }
            }
            // ordinary frames only: the registrations stay
            for (r, m) in e.live.values().enumerate() {
                if m.frame.topic != "xs.context" {
                    out.push(Op::Remove { rank: r });
                }
            }
            if n > 2 {
                out.push(Op::ImportAfter { rank: n - 1, topic: "a".into(), ctx: Ctx::Reg(1), ttl: "".into() });
                // an ordinary frame re-imported under its id into another context: it moves
                if e.live.values().last().map(|m| m.frame.topic != "xs.context").unwrap_or(false) {
                    let cur = e.live.values().last().unwrap().frame.context_id;
                    let target = if e.ctx_id(&Ctx::Reg(1)) == Some(cur) { Ctx::Reg(0) } else { Ctx::Reg(1) };
                    out.push(Op::ImportOver { rank: n - 1, topic: "a".into(), ctx: target, ttl: "".into() });
                }
            }
            gc_ops(e, false, &mut out);
            if thorough && reopen_ok {
                out.push(Op::Reopen);
            }
        }
        "C10" => {
            // frames sharing content, removed / evicted / expired one by one
            let body = |t: &str, ttl: &str, b: &str| Op::Append { topic: t.into(), ctx: Ctx::Zero, ttl: ttl.into(), meta: None, body: Some(b.into()) };
            for b in ["s1", "s2"] {
                out.push(body("a", "", b));
                out.push(body("a", "head:1", b));
                if thorough || b == "s1" {
                    out.push(body("ab", "", b));
                    out.push(body("a", &time_ttl(), b));
                }
            }
            for r in 0..n {
                out.push(Op::Remove { rank: r });
            }
            clock_ops(e, &[0], &mut out);
            gc_ops(e, false, &mut out);
            if reopen_ok {
                out.push(Op::Reopen);
            }
        }
        "C20" => {
            let mut ctxs = vec![Ctx::Zero];
            ctxs.extend(regs.iter().cloned());
            if e.ctxs.len() < if thorough { 2 } else { 1 } {
                out.push(Op::Register { ctx: Ctx::Zero, ttl: "".into() });
            }
            for c in &ctxs {
                out.push(app("a", c.clone(), ""));
                out.push(Op::Append { topic: "a".into(), ctx: c.clone(), ttl: "".into(), meta: Some(json!({"m": [1, {"x": null}]})), body: Some("shared".into()) });
                out.push(app("ab", c.clone(), &time_ttl()));
                out.push(app("a", c.clone(), "head:2"));
            }
            for r in 0..n {
                out.push(Op::Remove { rank: r });
            }
            gc_ops(e, false, &mut out);
        }
        _ => panic!("no E1 menu for {}", prop),
    }
    out
}

pub fn worker(prop: &str, tier: &str) {
    let prop = prop.to_string();
    let tier = tier.to_string();
    common::worker_loop(move |job| {
        let history: Vec<Op> = serde_json::from_value(job["history"].clone()).expect("history");
        let depth = history.len();
        let p2 = prop.clone();
        let t2 = tier.clone();
        let res = std::panic::catch_unwind(std::panic::AssertUnwindSafe(|| {
            model::run_history(config_for(&prop), &history, &move |e: &Exec| menu(&p2, &t2, depth, e))
        }));
        match res {
            Ok(r) => {
                if let Ok(f) = std::env::var("XSMC_DUMP_CANON") {
                    use std::io::Write;
                    if let Ok(mut fh) = std::fs::OpenOptions::new().create(true).append(true).open(format!("{}.{}", f, std::process::id())) {
                        let _ = writeln!(fh, "{}\t{}", serde_json::to_string(&history).unwrap(), r.canon);
                    }
                }
                json!({
                "canon": common::hash_str(&r.canon),
                "findings": r.findings,
                "menu": r.menu,
                "reads": r.reads,
                "outcome": common::hash_str(&r.outcome),
            })
            }
            Err(p) => {
                let msg = p
                    .downcast_ref::<String>()
                    .cloned()
                    .or_else(|| p.downcast_ref::<&str>().map(|s| s.to_string()))
                    .unwrap_or_else(|| "panic".into());
                // leave the process: global seams may be in an unknown state
                let out = json!({"panicked": msg, "job": job});
                println!("{}", out);
                std::process::exit(3);
            }
        }
    });
}

fn short(history: &[Op]) -> String {
    history
        .iter()
        .map(|o| match o {
            Op::Append { topic, ctx, ttl, .. } => format!("append({:?},{:?},{})", topic, ctx, if ttl.is_empty() { "-" } else { ttl }),
            other => {
                let v = serde_json::to_value(other).unwrap();
                let mut s = v["op"].as_str().unwrap_or("?").to_string();
                if let Some(obj) = v.as_object() {
                    let rest: Vec<String> = obj.iter().filter(|(k, _)| *k != "op").map(|(k, v)| format!("{}={}", k, v)).collect();
                    if !rest.is_empty() {
                        s = format!("{}({})", s, rest.join(","));
                    }
                }
                s
            }
        })
        .collect::<Vec<_>>()
        .join(" ; ")
}

/// Run the search for one property; findings owned by `prop` become violations of `report`.
/// Topics far longer than any history of the search: a backlog of L frames, then one `head:K`
/// frame, then ONE drain (`wait_for_gc`). Afterwards the topic holds exactly its K newest frames.
fn long_topics(prop: &str, report: &mut Report) {
    use scru128::Scru128Id;
    use xs::store::{Frame, Store, ZERO_CONTEXT};
    let rt = tokio::runtime::Builder::new_current_thread().enable_all().build().unwrap();
    let mut cases = 0;
    for (k, l) in [(1u32, 66usize), (2, 130), (3, 260)] {
        for ctx_registered in [false, true] {
            cases += 1;
            let dir = common::scratch_dir("long");
            let store = Store::new(dir.clone());
            let ctx = if ctx_registered { store.append(Frame::builder("xs.context", ZERO_CONTEXT).build()).unwrap().id } else { ZERO_CONTEXT };
            let mut ids = vec![];
            for i in 0..l {
                ids.push(store.append(Frame::builder("a", ctx).maybe_ttl(if i % 7 == 3 { Some(TTL::Head(100_000)) } else { None }).build()).unwrap().id);
                let _ = store.append(Frame::builder("ab", ctx).build());
            }
            ids.push(store.append(Frame::builder("a", ctx).ttl(TTL::Head(k)).build()).unwrap().id);
            rt.block_on(store.wait_for_gc());
            let left: Vec<Scru128Id> = store.read_sync(None, None, Some(ctx)).filter(|f| f.topic == "a").map(|f| f.id).collect();
            let want: Vec<Scru128Id> = ids[ids.len() - k as usize..].to_vec();
            let other = store.read_sync(None, None, Some(ctx)).filter(|f| f.topic == "ab").count();
            let label = format!("backlog of {} frames of a topic, then one head:{} frame, one drain ({} context)", l, k, if ctx_registered { "registered" } else { "zero" });
            if prop == "C09" && left.len() > k as usize {
                report.add_violation(Violation { property: prop.into(), signature: "E1:long.head_ttl.count".into(), message: format!("{}: the topic still holds {} frames", label, left.len()), replay: json!({"engine": "seq-long", "prop": prop}) });
            }
            if prop == "C09" && left.len() == k as usize && left != want {
                report.add_violation(Violation { property: prop.into(), signature: "E1:long.head_ttl.suffix".into(), message: format!("{}: the survivors are not the newest ones", label), replay: json!({"engine": "seq-long", "prop": prop}) });
            }
            if prop == "C08" && (want.iter().any(|w| !left.contains(w)) || other != l) {
                report.add_violation(Violation { property: prop.into(), signature: "E1:long.get.missing".into(), message: format!("{}: of the {} newest frames {:?} survive; the prefix-related topic holds {} of {} frames", label, k, left.len(), other, l), replay: json!({"engine": "seq-long", "prop": prop}) });
            }
            common::close_store_async(store);
            let _ = std::fs::remove_dir_all(&dir);
        }
    }
    if prop == "C08" {
        // supplementary (a sample of schedules, not the deciding step): clients remove old frames
        // of a long topic while a head:3 frame arrives and the collector sweeps - the three
        // newest frames survive whatever the interleaving
        let mut rounds = 0;
        for round in 0..3 {
            rounds += 1;
            let dir = common::scratch_dir("long");
            let store = Store::new(dir.clone());
            let mut ids = vec![];
            for _ in 0..800 {
                ids.push(store.append(Frame::builder("a", ZERO_CONTEXT).build()).unwrap().id);
            }
            let removers: Vec<_> = (0..4usize)
                .map(|t| {
                    let store = store.clone();
                    let mine: Vec<Scru128Id> = ids.iter().take(120).skip(t).step_by(4).cloned().collect();
                    std::thread::spawn(move || {
                        for id in mine {
                            let _ = store.remove(&id);
                        }
                    })
                })
                .collect();
            std::thread::sleep(std::time::Duration::from_millis(1 + round));
            ids.push(store.append(Frame::builder("a", ZERO_CONTEXT).ttl(TTL::Head(3)).build()).unwrap().id);
            for r in removers {
                let _ = r.join();
            }
            rt.block_on(store.wait_for_gc());
            let newest: Vec<Scru128Id> = ids[ids.len() - 3..].to_vec();
            let gone: Vec<String> = newest.iter().filter(|i| store.get(i).is_none()).map(|i| i.to_string()).collect();
            if !gone.is_empty() {
                report.add_violation(Violation { property: prop.into(), signature: "E1:stress.head_vs_remove".into(), message: format!("free-running: 4 clients removed old frames of an 800-frame topic while a head:3 frame arrived; of the 3 newest frames {:?} are gone", gone), replay: json!({"engine": "seq-long", "prop": prop}) });
            }
            common::close_store_async(store);
            let _ = std::fs::remove_dir_all(&dir);
        }
        report.cov("supplementary_head_vs_remove_stress", json!({"rounds": rounds, "note": "hook-free sample of schedules: explicit removes racing the collector's head sweep; not the deciding step"}));
    }
    report.cov("long_topics", json!({"cases": cases, "rule": "backlog L in {66,130,260} (mixed forever / head:100000) + one head:K frame (K in {1,2,3}) + ONE drain, zero and registered context, with a prefix-related topic alongside"}));
}

pub fn run(prop: &str, tier: &str, report: &mut Report) {
    if prop == "C08" || prop == "C09" {
        long_topics(prop, report);
    }
    let p = params(prop, tier);
    let t0 = Instant::now();
    let extra = vec![prop.to_string(), tier.to_string()];
    let mut seen: HashSet<String> = HashSet::new();
    let mut outcomes: HashSet<String> = HashSet::new();
    let mut frontier: Vec<Vec<Op>> = vec![vec![]];
    let mut transitions: u64 = 0;
    let mut ops_applied: u64 = 0;
    let mut reads: u64 = 0;
    let mut depth_done: i64 = -1;
    let mut exhausted = false;
    let mut capped = false;
    let mut samples: Vec<String> = vec![];
    let mut per_level = vec![];
    let mut harness_errors = vec![];
    let mut depth = 0usize;
    let mut hung = false;
    while !frontier.is_empty() && !hung {
        if t0.elapsed().as_secs() > p.time_cap_s {
            capped = true;
            break;
        }
        // a level is processed in chunks so that the wall-clock cap is honoured inside a level; a
        // level cut short is reported as not completed
        let mut results: Vec<Value> = Vec::with_capacity(frontier.len());
        let mut cut = false;
        for chunk in frontier.chunks(3000) {
            if t0.elapsed().as_secs() > p.time_cap_s {
                cut = true;
                break;
            }
            let jobs: Vec<Value> = chunk.iter().map(|h| json!({"history": h})).collect();
            results.extend(common::pool_map("seq", &extra, common::ncpu(), jobs));
        }
        if cut {
            capped = true;
            frontier.truncate(results.len());
        }
        let mut next: Vec<Vec<Op>> = vec![];
        let mut new_states = 0;
        for (h, r) in frontier.iter().zip(results.iter()) {
            transitions += 1;
            ops_applied += h.len() as u64;
            if r.get("crashed").is_some() || r.get("panicked").is_some() {
                // A panic inside the store while replaying an accepted history is a finding in
                // itself (C12: nothing accepted can poison later reads); harness panics say so.
                let msg = r.get("panicked").and_then(|m| m.as_str()).unwrap_or("worker died").to_string();
                if r.get("skipped_after_hang").is_some() {
                    hung = true;
                    continue;
                }
                if r.get("timeout").is_some() {
                    hung = true;
                }
                if msg.starts_with("harness:") || msg.contains("menu") {
                    harness_errors.push(format!("{} :: {}", short(h), msg));
                } else {
                    report.add_violation(Violation {
                        property: prop.to_string(),
                        signature: format!("E1:panic:{}", msg.chars().take(60).collect::<String>()),
                        message: format!("history [{}] made the store panic: {}", short(h), msg),
                        replay: json!({"engine": "seq", "prop": prop, "tier": tier, "history": h}),
                    });
                }
                continue;
            }
            reads += r["reads"].as_u64().unwrap_or(0);
            outcomes.insert(r["outcome"].as_str().unwrap_or("").to_string());
            let findings = r["findings"].as_array().cloned().unwrap_or_default();
            let mut bad = false;
            for f in findings {
                let owners: Vec<String> = serde_json::from_value(f["owners"].clone()).unwrap_or_default();
                if owners.iter().any(|o| o == prop) {
                    bad = true;
                    let last = h.last().map(|o| serde_json::to_value(o).unwrap()["op"].as_str().unwrap_or("?").to_string()).unwrap_or("init".into());
                    report.add_violation(Violation {
                        property: prop.to_string(),
                        signature: format!("E1:{}:{}", f["kind"].as_str().unwrap_or("?"), last),
                        message: format!("history [{}]: {}", short(h), f["msg"].as_str().unwrap_or("")),
                        replay: json!({"engine": "seq", "prop": prop, "tier": tier, "history": h}),
                    });
                }
            }
            let canon = r["canon"].as_str().unwrap_or("").to_string();
            if seen.insert(canon) {
                new_states += 1;
                if samples.len() < 6 && h.len() == depth && (new_states % 7 == 1) {
                    samples.push(short(h));
                }
                if !bad && depth < p.max_depth {
                    let menu: Vec<Op> = serde_json::from_value(r["menu"].clone()).unwrap_or_default();
                    for op in menu {
                        let mut c = h.clone();
                        c.push(op);
                        next.push(c);
                    }
                }
            }
        }
        per_level.push(json!({"depth": depth, "histories": frontier.len(), "new_states": new_states, "completed": !cut}));
        if cut {
            break;
        }
        depth_done = depth as i64;
        if next.is_empty() {
            exhausted = depth < p.max_depth;
        }
        frontier = next;
        depth += 1;
        if depth > p.max_depth {
            break;
        }
    }
    if !harness_errors.is_empty() {
        eprintln!("HARNESS ERROR: {:?}", &harness_errors[..harness_errors.len().min(3)]);
        std::process::exit(2);
    }
    if samples.is_empty() {
        samples.push("<initial state only>".into());
    }
    report.cov("states", json!(seen.len()));
    report.cov("transitions", json!(transitions));
    report.cov("traces_validated_against_impl", json!(transitions));
    report.cov("operations_replayed_on_real_store", json!(ops_applied));
    report.cov("reads_checked", json!(reads));
    report.cov("max_depth_completed", json!(depth_done));
    report.cov("depth_bound", json!(p.max_depth));
    report.cov("frontier_exhausted_before_bound", json!(exhausted));
    report.cov("time_cap_hit", json!(capped));
    report.cov("exhaustive", json!(!capped));
    report.cov("distinct_observation_outcomes", json!(outcomes.len()));
    report.cov("levels", json!(per_level));
    report.cov("samples", json!(samples));
    report.cov(
        "explanation",
        json!(format!(
            "breadth-first search over all operation histories of the {} menu up to depth {}; every transition replayed on a fresh real store (feature verif) and compared with the reference model after every step; states merged on the canonical raw contents of the three partitions + registry + pending GC + model obligations",
            prop, p.max_depth
        )),
    );
}

/// Re-execute one archived history without the explorer.
pub fn replay(v: &Value) -> i32 {
    let prop = v["prop"].as_str().unwrap().to_string();
    let tier = v["tier"].as_str().unwrap_or("quick").to_string();
    let history: Vec<Op> = serde_json::from_value(v["history"].clone()).expect("history");
    let depth = history.len();
    let p2 = prop.clone();
    let r = model::run_history(config_for(&prop), &history, &move |e: &Exec| menu(&p2, &tier, depth, e));
    let mut n = 0;
    for f in &r.findings {
        if f.owners.iter().any(|o| *o == prop) {
            println!("finding {}: {}", f.kind, f.msg);
            n += 1;
        }
    }
    println!("replayed [{}]: {} finding(s) for {}", short(&history), n, prop);
    let _ = TTL::Forever;
    if n > 0 {
        1
    } else {
        0
    }
}
