//! E5: lifecycle explorer for handlers / generators / commands -- the real serve loops on a real
//! store, driven through the Store API; quiescence by sentinels.
use std::path::PathBuf;
use std::sync::{Arc, Condvar, Mutex};
use std::time::{Duration, Instant};

use scru128::Scru128Id;
use serde_json::Value;

use xs::store::{FollowOption, Frame, ReadOptions, Store, TTL, ZERO_CONTEXT};

use crate::common;

pub struct World {
    pub dir: PathBuf,
    pub store: Store,
    pub rt: tokio::runtime::Runtime,
    pub log: Arc<(Mutex<Vec<Frame>>, Condvar)>,
    pub ctx_a: Scru128Id,
    pub ctx_b: Scru128Id,
    pub commands_task: Mutex<Option<tokio::task::JoinHandle<()>>>,
}

#[derive(Clone, Copy, Default)]
pub struct Serve {
    pub handlers: bool,
    pub generators: bool,
    pub commands: bool,
}

impl World {
    pub fn start(serve: Serve) -> World {
        let dir = common::scratch_dir("e5");
        Self::start_in(dir, serve, true)
    }

    pub fn start_in(dir: PathBuf, serve: Serve, register_ctxs: bool) -> World {
        let store = Store::new(dir.clone());
        let rt = tokio::runtime::Builder::new_multi_thread().worker_threads(4).enable_all().build().unwrap();
        let (ctx_a, ctx_b) = if register_ctxs {
            (
                store.append(Frame::builder("xs.context", ZERO_CONTEXT).build()).unwrap().id,
                store.append(Frame::builder("xs.context", ZERO_CONTEXT).build()).unwrap().id,
            )
        } else {
            (ZERO_CONTEXT, ZERO_CONTEXT)
        };
        let log: Arc<(Mutex<Vec<Frame>>, Condvar)> = Arc::new((Mutex::new(vec![]), Condvar::new()));
        // the observer: a follower over all contexts from the beginning (sees ephemeral frames)
        {
            let store = store.clone();
            let log = log.clone();
            let (tx, rx) = std::sync::mpsc::channel::<()>();
            rt.spawn(async move {
                let mut r = store.read(ReadOptions::builder().follow(FollowOption::On).build()).await;
                let _ = tx.send(());
                while let Some(f) = r.recv().await {
                    let (m, cv) = &*log;
                    m.lock().unwrap().push(f);
                    cv.notify_all();
                }
            });
            rx.recv_timeout(Duration::from_secs(10)).expect("harness: observer did not subscribe");
        }
        let engine = xs::nu::Engine::new().expect("nu engine");
        if serve.handlers {
            let (s, e) = (store.clone(), engine.clone());
            rt.spawn(async move {
                let _ = xs::handlers::serve(s, e).await;
            });
        }
        if serve.generators {
            let (s, e) = (store.clone(), engine.clone());
            rt.spawn(async move {
                let _ = xs::generators::serve(s, e).await;
            });
        }
        let mut commands_task = None;
        if serve.commands {
            let (s, e) = (store.clone(), engine.clone());
            commands_task = Some(rt.spawn(async move {
                let _ = xs::commands::serve(s, e).await;
            }));
        }
        let w = World { dir, store, rt, log, ctx_a, ctx_b, commands_task: Mutex::new(commands_task) };
        // the serve loops act on live frames only after they have read the history up to their
        // threshold; a sentinel per loop proves they are past it
        w.settle_loops(serve);
        w
    }

    /// Prove that each serve loop is live (has passed its threshold) by a round trip.
    pub fn settle_loops(&self, serve: Serve) {
        if serve.handlers {
            let f = self.append_c("zzboot.register", ZERO_CONTEXT, Some("{run: {|frame| null}}"), None);
            self.wait(|x| x.topic == "zzboot.registered" && meta_str(x, "handler_id") == Some(f.id.to_string()), 20.0).expect("harness: handlers::serve did not come up");
        }
        if serve.commands {
            // a call is only executed when it arrives live: retry until one is answered
            let d = self.append_c("zzboot.define", ZERO_CONTEXT, Some("{run: {|frame| 1}}"), None);
            let _ = d;
            let t0 = Instant::now();
            loop {
                let c = self.append_c("zzboot.call", ZERO_CONTEXT, None, None);
                if self.wait(|x| x.topic == "zzboot.complete" && meta_str(x, "frame_id") == Some(c.id.to_string()), 0.3).is_some() {
                    break;
                }
                if t0.elapsed() > Duration::from_secs(20) {
                    panic!("harness: commands::serve did not come up");
                }
            }
        }
        if serve.generators {
            // a spawn is honoured whether it is read from history or live
            let s = self.append_c("zzboot.spawn", ZERO_CONTEXT, Some("\"x\""), None);
            self.wait(|x| x.topic == "zzboot.start" && meta_str(x, "source_id") == Some(s.id.to_string()), 20.0).expect("harness: generators::serve did not come up");
        }
    }

    /// Restart of the command server: the running serve loop is aborted and a new one is started
    /// on the same store (it replays the history up to its threshold like after a process restart).
    pub fn restart_commands(&self) {
        if let Some(h) = self.commands_task.lock().unwrap().take() {
            h.abort();
            let _ = self.rt.block_on(h);
        }
        let engine = xs::nu::Engine::new().expect("nu engine");
        let s = self.store.clone();
        let h = self.rt.spawn(async move {
            let _ = xs::commands::serve(s, engine).await;
        });
        *self.commands_task.lock().unwrap() = Some(h);
        self.settle_loops(Serve { commands: true, ..Default::default() });
    }

    pub fn append_c(&self, topic: &str, ctx: Scru128Id, content: Option<&str>, meta: Option<Value>) -> Frame {
        let hash = content.map(|c| self.store.cas_insert_sync(c.as_bytes()).expect("cas"));
        self.store
            .append(Frame::builder(topic.to_string(), ctx).maybe_hash(hash).maybe_meta(meta).build())
            .expect("harness append")
    }

    pub fn append_ttl(&self, topic: &str, ctx: Scru128Id, ttl: TTL) -> Frame {
        self.store.append(Frame::builder(topic.to_string(), ctx).ttl(ttl).build()).expect("harness append")
    }

    pub fn snapshot(&self) -> Vec<Frame> {
        self.log.0.lock().unwrap().clone()
    }

    /// the frames of `log` from `from` on, in the order the observer received them
    pub fn snapshot_ref_after<'a>(&self, log: &'a [Frame], from: Scru128Id) -> Vec<&'a Frame> {
        log.iter().skip_while(|f| f.id != from).collect()
    }

    /// Wait until a frame satisfying `pred` is in the log (returns the first such frame).
    pub fn wait(&self, pred: impl Fn(&Frame) -> bool, secs: f64) -> Option<Frame> {
        let (m, cv) = &*self.log;
        let deadline = Instant::now() + Duration::from_secs_f64(secs);
        let mut g = m.lock().unwrap();
        loop {
            if let Some(f) = g.iter().find(|f| pred(f)) {
                return Some(f.clone());
            }
            let now = Instant::now();
            if now >= deadline {
                return None;
            }
            let (ng, _) = cv.wait_timeout(g, deadline - now).unwrap();
            g = ng;
        }
    }

    /// Wait until the observer has seen frame `id` (everything appended before it is then logged).
    pub fn sync_to(&self, id: Scru128Id) {
        self.wait(|f| f.id == id, 20.0).expect("harness: observer lost a frame");
    }

    pub fn content(&self, f: &Frame) -> Option<String> {
        f.hash.as_ref().and_then(|h| self.store.cas_read_sync(h).ok()).map(|b| String::from_utf8_lossy(&b).to_string())
    }

    pub fn stop(self) {
        let World { store, rt, dir, .. } = self;
        rt.shutdown_background();
        common::close_store_async(store);
        std::thread::spawn(move || {
            std::thread::sleep(Duration::from_millis(1500));
            let _ = std::fs::remove_dir_all(dir);
        });
    }
}

pub fn meta_str(f: &Frame, key: &str) -> Option<String> {
    f.meta.as_ref().and_then(|m| m.get(key)).and_then(|v| v.as_str()).map(|s| s.to_string())
}

pub fn is_boot(f: &Frame) -> bool {
    f.topic.starts_with("zzboot.") || f.topic == "xs.threshold"
}
