//! E4: exhaustive request sequences against the real HTTP API; differential oracle against the
//! Store API of the very store the server runs on.
use std::collections::HashSet;
use std::time::{Duration, Instant};

use base64::Engine as _;
use scru128::Scru128Id;
use serde_json::{json, Value};

use xs::store::{Frame, ReadOptions, Store, TTL, ZERO_CONTEXT};

use crate::common::{self, Report, Violation};
use crate::http::{Conn, Req, Resp, Server};

#[derive(Clone, Debug)]
pub struct Finding {
    pub kind: String,
    pub msg: String,
}

#[derive(Clone)]
pub struct Env {
    pub ctx_a: Scru128Id,
    pub f0: Scru128Id,
    pub f1: Scru128Id,
    pub fa: Scru128Id,
    pub unknown_id: Scru128Id,
    pub unreg_ctx: Scru128Id,
    pub seed_hash: String,
}

#[derive(Clone, Debug)]
pub enum Kind {
    Version,
    Cat { query: Option<String>, valid: bool, sse: bool },
    Append(AppendK),
    Get { id: Option<Scru128Id> },
    Remove { id: Option<Scru128Id> },
    Head { topic: String, ctx: Option<Scru128Id>, ctx_valid: bool },
    CasPost { body: Option<Vec<u8>> },
    CasGet { known: Option<Vec<u8>>, well_formed: bool },
    Import { frame: Option<Frame>, storable: bool },
    NoRoute { expect: u16 },
    /// an upload cut off in the middle of its body: must not succeed, must not change the store
    Truncated,
}

#[derive(Clone, Debug)]
pub struct AppendK {
    pub topic: String,
    pub ctx: Option<Scru128Id>,
    pub ctx_valid: bool,
    pub ttl: Option<String>,
    pub ttl_valid: bool,
    pub meta: Option<Value>,
    pub meta_valid: bool,
    pub body: Option<Vec<u8>>,
}

fn appk(topic: &str) -> AppendK {
    AppendK { topic: topic.into(), ctx: None, ctx_valid: true, ttl: None, ttl_valid: true, meta: None, meta_valid: true, body: None }
}

#[derive(Clone)]
pub struct Item {
    pub name: String,
    pub req: Req,
    pub kind: Kind,
}

fn b64(s: &str) -> Vec<u8> {
    base64::prelude::BASE64_STANDARD.encode(s).into_bytes()
}

pub fn seed(store: &Store) -> Env {
    let ctx_a = store.append(Frame::builder("xs.context", ZERO_CONTEXT).build()).unwrap().id;
    let h = store.cas_insert_sync(b"seedcontent").unwrap();
    let f0 = store.append(Frame::builder("a", ZERO_CONTEXT).hash(h.clone()).build()).unwrap().id;
    let f1 = store.append(Frame::builder("b", ZERO_CONTEXT).meta(json!({"k": 1})).build()).unwrap().id;
    let fa = store.append(Frame::builder("a", ctx_a).build()).unwrap().id;
    Env {
        ctx_a,
        f0,
        f1,
        fa,
        unknown_id: Scru128Id::from_u128((5u128 << 80) | 99),
        unreg_ctx: Scru128Id::from_u128((6u128 << 80) | 77),
        seed_hash: h.to_string(),
    }
}

pub fn items(env: &Env, full: bool) -> Vec<Item> {
    let mut v: Vec<Item> = vec![];
    let mut add = |name: &str, req: Req, kind: Kind| v.push(Item { name: name.into(), req, kind });
    let app = |topic: &str| Kind::Append(appk(topic));

    add("version", Req::new("GET", "/version"), Kind::Version);
    // reads
    add("cat", Req::new("GET", "/"), Kind::Cat { query: None, valid: true, sse: false });
    add("cat-sse", Req::new("GET", "/").header("Accept", b"text/event-stream"), Kind::Cat { query: None, valid: true, sse: true });
    add("cat-limit1", Req::new("GET", "/?limit=1"), Kind::Cat { query: Some("limit=1".into()), valid: true, sse: false });
    let q = format!("last-id={}", env.f0);
    add("cat-lastid", Req::new("GET", &format!("/?{}", q)), Kind::Cat { query: Some(q), valid: true, sse: false });
    let q = format!("context-id={}&limit=2", env.ctx_a);
    add("cat-ctx", Req::new("GET", &format!("/?{}", q)).header("Accept", b"text/event-stream"), Kind::Cat { query: Some(q), valid: true, sse: true });
    add("cat-tail", Req::new("GET", "/?tail=true"), Kind::Cat { query: Some("tail=true".into()), valid: true, sse: false });
    // options in combination (seed C13-r7: a "bounded one-shot read" shortcut that forgets `tail`)
    add("cat-tail-limit", Req::new("GET", "/?tail=true&limit=1"), Kind::Cat { query: Some("tail=true&limit=1".into()), valid: true, sse: false });
    let q = format!("tail=true&follow=false&limit=2&context-id={}", env.ctx_a);
    add("cat-tail-limit-ctx-sse", Req::new("GET", &format!("/?{}", q)).header("Accept", b"text/event-stream"), Kind::Cat { query: Some(q), valid: true, sse: true });
    let q = format!("context-id={}&last-id={}", env.ctx_a, env.f0);
    add("cat-ctx-lastid", Req::new("GET", &format!("/?{}", q)), Kind::Cat { query: Some(q), valid: true, sse: false });
    add("cat-zero-ctx", Req::new("GET", "/?context-id=0000000000000000000000000&limit=3"), Kind::Cat { query: Some("context-id=0000000000000000000000000&limit=3".into()), valid: true, sse: false });
    add("cat-follow-false", Req::new("GET", "/?follow=false&limit=1"), Kind::Cat { query: Some("follow=false&limit=1".into()), valid: true, sse: false });
    for (n, q) in [("cat-badlimit", "limit=x"), ("cat-neglimit", "limit=-1"), ("cat-badfollow", "follow=bogus"), ("cat-badlast", "last-id=zzz"), ("cat-badctx", "context-id=12345")] {
        add(n, Req::new("GET", &format!("/?{}", q)), Kind::Cat { query: Some(q.into()), valid: false, sse: false });
    }
    // appends
    add("post", Req::new("POST", "/a"), app("a"));
    add("post-body", Req::new("POST", "/a").body(b"hello"), Kind::Append(AppendK { body: Some(b"hello".to_vec()), ..appk("a") }));
    let big: Vec<u8> = (0..70_000u32).map(|i| (i % 251) as u8).collect();
    add("post-big-chunked", Req::new("POST", "/ab").body(&big).chunked(), Kind::Append(AppendK { body: Some(big.clone()), ..appk("ab") }));
    add("post-head1", Req::new("POST", "/a?ttl=head:1"), Kind::Append(AppendK { ttl: Some("head:1".into()), ..appk("a") }));
    add("post-time", Req::new("POST", "/a?ttl=time:3600000"), Kind::Append(AppendK { ttl: Some("time:3600000".into()), ..appk("a") }));
    add("post-ctx", Req::new("POST", &format!("/a?context={}", env.ctx_a)), Kind::Append(AppendK { ctx: Some(env.ctx_a), ..appk("a") }));
    add("post-unregctx", Req::new("POST", &format!("/a?context={}", env.unreg_ctx)), Kind::Append(AppendK { ctx: Some(env.unreg_ctx), ..appk("a") }));
    add("post-badctx", Req::new("POST", "/a?context=zzz"), Kind::Append(AppendK { ctx_valid: false, ..appk("a") }));
    add("post-ephemeral", Req::new("POST", "/a?ttl=ephemeral").body(b"gone"), Kind::Append(AppendK { ttl: Some("ephemeral".into()), body: Some(b"gone".to_vec()), ..appk("a") }));
    let m2 = json!({"k": "v"});
    add(
        "post-all-options",
        Req::new("POST", &format!("/ab?context={}&ttl=head:2", env.ctx_a)).body(b"combined").header("xs-meta", &b64(&m2.to_string())),
        Kind::Append(AppendK { ctx: Some(env.ctx_a), ttl: Some("head:2".into()), meta: Some(m2.clone()), body: Some(b"combined".to_vec()), ..appk("ab") }),
    );
    add("post-register", Req::new("POST", "/xs.context"), app("xs.context"));
    add("post-register-in-ctx", Req::new("POST", &format!("/xs.context?context={}", env.ctx_a)), Kind::Append(AppendK { ctx: Some(env.ctx_a), ..appk("xs.context") }));
    for (n, t) in [("post-ttl-head0", "head:0"), ("post-ttl-bogus", "bogus"), ("post-ttl-neg", "time:-1"), ("post-ttl-overflow", "head:4294967296")] {
        add(n, Req::new("POST", &format!("/a?ttl={}", t)), Kind::Append(AppendK { ttl: Some(t.into()), ttl_valid: false, ..appk("a") }));
    }
    let meta = json!({"x": [1, "two", null], "y": {"z": 1.5}});
    add("post-meta", Req::new("POST", "/a").header("xs-meta", &b64(&meta.to_string())), Kind::Append(AppendK { meta: Some(meta.clone()), ..appk("a") }));
    add("post-meta-badb64", Req::new("POST", "/a").header("xs-meta", b"!!!notbase64"), Kind::Append(AppendK { meta_valid: false, ..appk("a") }));
    add("post-meta-badutf8", Req::new("POST", "/a").header("xs-meta", &base64::prelude::BASE64_STANDARD.encode([0xffu8, 0xfe, 0x00]).into_bytes()), Kind::Append(AppendK { meta_valid: false, ..appk("a") }));
    add("post-meta-badjson", Req::new("POST", "/a").header("xs-meta", &b64("{not json")), Kind::Append(AppendK { meta_valid: false, ..appk("a") }));
    add("post-meta-nonascii", Req::new("POST", "/a").header("xs-meta", &[0xe2, 0x82, 0xac, b'a']), Kind::Append(AppendK { meta_valid: false, ..appk("a") }));
    // by id
    add("get", Req::new("GET", &format!("/{}", env.f0)), Kind::Get { id: Some(env.f0) });
    add("get-unknown", Req::new("GET", &format!("/{}", env.unknown_id)), Kind::Get { id: Some(env.unknown_id) });
    add("get-badid", Req::new("GET", "/notanid"), Kind::Get { id: None });
    add("delete", Req::new("DELETE", &format!("/{}", env.f0)), Kind::Remove { id: Some(env.f0) });
    add("delete-ctxreg", Req::new("DELETE", &format!("/{}", env.ctx_a)), Kind::Remove { id: Some(env.ctx_a) });
    add("delete-unknown", Req::new("DELETE", &format!("/{}", env.unknown_id)), Kind::Remove { id: Some(env.unknown_id) });
    add("delete-in-ctx", Req::new("DELETE", &format!("/{}", env.fa)), Kind::Remove { id: Some(env.fa) });
    add("get-in-ctx", Req::new("GET", &format!("/{}", env.fa)), Kind::Get { id: Some(env.fa) });
    add("delete-badid", Req::new("DELETE", "/zzz"), Kind::Remove { id: None });
    // head
    add("head", Req::new("GET", "/head/a"), Kind::Head { topic: "a".into(), ctx: None, ctx_valid: true });
    add("head-none", Req::new("GET", "/head/nosuch"), Kind::Head { topic: "nosuch".into(), ctx: None, ctx_valid: true });
    add("head-ctx", Req::new("GET", &format!("/head/a?context={}", env.ctx_a)), Kind::Head { topic: "a".into(), ctx: Some(env.ctx_a), ctx_valid: true });
    add("head-badctx", Req::new("GET", "/head/a?context=nope"), Kind::Head { topic: "a".into(), ctx: None, ctx_valid: false });
    // cas
    add("cas-post", Req::new("POST", "/cas").body(b"\x00\xffbinary"), Kind::CasPost { body: Some(b"\x00\xffbinary".to_vec()) });
    add("cas-post-empty", Req::new("POST", "/cas"), Kind::CasPost { body: None });
    add("cas-get", Req::new("GET", &format!("/cas/{}", env.seed_hash)), Kind::CasGet { known: Some(b"seedcontent".to_vec()), well_formed: true });
    add("cas-get-unknown", Req::new("GET", "/cas/sha256-AAAAAAAAAAAAAAAAAAAAAAAAAAAAAAAAAAAAAAAAAAA="), Kind::CasGet { known: None, well_formed: true });
    add("cas-get-malformed", Req::new("GET", "/cas/sha256-***"), Kind::CasGet { known: None, well_formed: false });
    // import
    let imp = Frame::builder("imp", ZERO_CONTEXT).id(Scru128Id::from_u128(env.f0.to_u128() + 1)).meta(json!({"i": true})).build();
    add("import", Req::new("POST", "/import").body(serde_json::to_string(&imp).unwrap().as_bytes()), Kind::Import { frame: Some(imp), storable: true });
    let impc = Frame::builder("impc", env.ctx_a).id(Scru128Id::from_u128(env.f1.to_u128() + 1)).ttl(TTL::Head(3)).build();
    add("import-in-ctx", Req::new("POST", "/import").body(serde_json::to_string(&impc).unwrap().as_bytes()), Kind::Import { frame: Some(impc), storable: true });
    let impr = Frame::builder("xs.context", ZERO_CONTEXT).id(Scru128Id::from_u128(env.ctx_a.to_u128() + 1)).ttl(TTL::Forever).build();
    add("import-registration", Req::new("POST", "/import").body(serde_json::to_string(&impr).unwrap().as_bytes()), Kind::Import { frame: Some(impr), storable: true });
    add("import-badjson", Req::new("POST", "/import").body(b"{\"topic\": 1"), Kind::Import { frame: None, storable: false });
    let nul = Frame::builder("a\0b", ZERO_CONTEXT).id(Scru128Id::from_u128(env.f0.to_u128() + 2)).build();
    add("import-nul", Req::new("POST", "/import").body(serde_json::to_string(&nul).unwrap().as_bytes()), Kind::Import { frame: Some(nul), storable: false });
    // uploads cut mid-body (declared length not reached / chunked body without its terminator)
    add("post-cut-length", Req::new("POST", "/cut").body(b"0123456789").truncated(4), Kind::Truncated);
    add("post-cut-chunked", Req::new("POST", "/cut").body(b"0123456789").chunked().truncated(4), Kind::Truncated);
    add("cas-cut-chunked", Req::new("POST", "/cas").body(b"0123456789").chunked().truncated(4), Kind::Truncated);
    let cutimp = Frame::builder("cutimp", ZERO_CONTEXT).id(Scru128Id::from_u128(env.f0.to_u128() + 9)).build();
    let cutbody = serde_json::to_string(&cutimp).unwrap();
    add("import-cut-length", Req::new("POST", "/import").body(cutbody.as_bytes()).truncated(cutbody.len() - 3), Kind::Truncated);
    // no route
    add("put-root", Req::new("PUT", "/"), Kind::NoRoute { expect: 404 });
    add("patch", Req::new("PATCH", "/a"), Kind::NoRoute { expect: 404 });
    add("options", Req::new("OPTIONS", "/"), Kind::NoRoute { expect: 404 });
    add("post-cas-sub", Req::new("POST", "/cas/x").body(b"x"), Kind::Append(AppendK { body: Some(b"x".to_vec()), ..appk("cas/x") }));
    if full {
        add("post-root", Req::new("POST", "/"), app(""));
        add("get-deep", Req::new("GET", "/no/such/path"), Kind::Get { id: None });
        add("post-pct-nul", Req::new("POST", "/a%00b"), app("a%00b"));
    }
    v
}

fn parse_ndjson(body: &[u8]) -> Result<Vec<Frame>, String> {
    let s = std::str::from_utf8(body).map_err(|e| e.to_string())?;
    s.lines().filter(|l| !l.is_empty()).map(|l| serde_json::from_str::<Frame>(l).map_err(|e| format!("{}: {}", e, l))).collect()
}

fn parse_sse(body: &[u8]) -> Result<Vec<Frame>, String> {
    let s = std::str::from_utf8(body).map_err(|e| e.to_string())?;
    let mut out = vec![];
    for ev in s.split("\n\n").filter(|e| !e.trim().is_empty()) {
        let mut id = None;
        let mut data = None;
        for l in ev.lines() {
            if let Some(x) = l.strip_prefix("id: ") {
                id = Some(x.to_string());
            } else if let Some(x) = l.strip_prefix("data: ") {
                data = Some(x.to_string());
            }
        }
        let f: Frame = serde_json::from_str(&data.ok_or("event without data")?).map_err(|e| e.to_string())?;
        if id.as_deref() != Some(&f.id.to_string()) {
            return Err(format!("SSE id {:?} != frame id {}", id, f.id));
        }
        out.push(f);
    }
    Ok(out)
}

fn direct_read(server: &Server, opts: ReadOptions) -> Vec<Frame> {
    let store = server.store.clone();
    server.rt.block_on(async move {
        let mut rx = store.read(opts).await;
        let mut v = vec![];
        while let Some(f) = rx.recv().await {
            v.push(f);
        }
        v
    })
}

/// Execute one request and check it. Returns (outcome tag, findings).
pub fn step(server: &Server, item: &Item, conn: &mut Option<Conn>) -> (String, Vec<Finding>) {
    let mut fs = vec![];
    let store = &server.store;
    // let evictions queued by earlier requests finish: they are not effects of this request
    server.rt.block_on(store.wait_for_gc());
    let before = store.verif_dump();
    let before_frames: Vec<Frame> = store.read_sync(None, None, None).collect();
    let resp: Resp = match conn {
        Some(c) => c.roundtrip(&item.req, None),
        None => crate::http::once(&server.sock, &item.req),
    };
    server.rt.block_on(store.wait_for_gc());
    let after = store.verif_dump();
    let after_frames: Vec<Frame> = store.read_sync(None, None, None).collect();
    let mut bad = |kind: &str, msg: String| fs.push(Finding { kind: kind.into(), msg: format!("{} [{} {}]: {}", item.name, item.req.method, item.req.target.chars().take(80).collect::<String>(), msg) });
    if matches!(item.kind, Kind::Truncated) {
        // the request itself is incomplete: any non-success answer (or none) is fine, but nothing
        // may have been stored and no partial content may be referenced by a frame
        if resp.status / 100 == 2 {
            bad("http.status", format!("an upload cut mid-body was answered {}", resp.status));
        }
        if after != before {
            bad("http.effect", "an upload cut mid-body changed the store".into());
        }
        return (format!("cut:{}", resp.status), fs);
    }
    if resp.status == 0 {
        bad("http.no_response", format!("no HTTP response ({})", resp.error.clone().unwrap_or_default()));
        if after != before {
            bad("http.effect", "request without response changed the store".into());
        }
        return ("noresp".into(), fs);
    }
    let st = resp.status;
    let unchanged = after == before;
    let class = |s: u16| s / 100;
    let mut tag = format!("{}", st);
    match &item.kind {
        Kind::Version => {
            if st != 200 || serde_json::from_slice::<Value>(&resp.body).ok().and_then(|v| v.get("version").cloned()).is_none() {
                bad("http.status", format!("GET /version -> {} {:?}", st, String::from_utf8_lossy(&resp.body)));
            }
            if !unchanged {
                bad("http.effect", "read-only request changed the store".into());
            }
        }
        Kind::Cat { query, valid, sse } => {
            if !unchanged {
                bad("http.effect", "read-only request changed the store".into());
            }
            if !valid {
                if class(st) != 4 {
                    bad("http.status", format!("malformed options got {}", st));
                }
            } else if st != 200 {
                bad("http.status", format!("valid read got {}", st));
            } else {
                let opts = ReadOptions::from_query(query.as_deref()).expect("valid query");
                let want = direct_read(server, opts);
                let got = if *sse { parse_sse(&resp.body) } else { parse_ndjson(&resp.body) };
                match got {
                    Ok(g) => {
                        if g != want {
                            bad("http.body", format!("HTTP rendering has {} frames {:?}, Store::read has {} {:?}", g.len(), g.iter().map(|f| f.topic.clone()).collect::<Vec<_>>(), want.len(), want.iter().map(|f| f.topic.clone()).collect::<Vec<_>>()));
                        }
                        tag = format!("200:{}", g.len());
                    }
                    Err(e) => bad("http.body", format!("undecodable body: {}", e)),
                }
                let ct = resp.headers.iter().find(|(k, _)| k == "content-type").map(|(_, v)| v.clone()).unwrap_or_default();
                let want_ct = if *sse { "text/event-stream" } else { "application/x-ndjson" };
                if ct != want_ct {
                    bad("http.body", format!("content-type {:?}, expected {:?}", ct, want_ct));
                }
            }
        }
        Kind::Append(AppendK { topic, ctx, ctx_valid, ttl, ttl_valid, meta, meta_valid, body }) => {
            let syntax_ok = *ctx_valid && *ttl_valid && *meta_valid;
            let ctx_id = ctx.unwrap_or(ZERO_CONTEXT);
            let usable = ctx_id == ZERO_CONTEXT || before.contexts.contains(&ctx_id);
            let store_ok = if topic == "xs.context" { ctx_id == ZERO_CONTEXT } else { usable };
            if !syntax_ok {
                if class(st) != 4 {
                    bad("http.status", format!("malformed append got {}", st));
                }
                if !unchanged {
                    bad("http.effect", "rejected append changed the store".into());
                }
            } else if !store_ok {
                if st < 400 {
                    bad("http.status", format!("append the store must reject got {}", st));
                }
                if !unchanged {
                    bad("http.effect", "rejected append changed the store".into());
                }
            } else if class(st) != 2 {
                bad("http.status", format!("valid append got {} {:?}", st, String::from_utf8_lossy(&resp.body)));
            } else {
                let new: Vec<&Frame> = after_frames.iter().filter(|f| !before_frames.iter().any(|b| b.id == f.id)).collect();
                let gone = before_frames.iter().filter(|b| !after_frames.iter().any(|f| f.id == b.id)).count();
                let ttl_v = ttl.as_ref().map(|t| xs::store::parse_ttl(t).unwrap()).unwrap_or(TTL::Forever);
                let want_ttl = if topic == "xs.context" { TTL::Forever } else { ttl_v };
                if want_ttl == TTL::Ephemeral {
                    if !new.is_empty() {
                        bad("http.effect", "an ephemeral append was stored".into());
                    }
                    match serde_json::from_slice::<Frame>(&resp.body) {
                        Ok(r) if r.topic == *topic && r.ttl == Some(TTL::Ephemeral) && r.context_id == ctx_id => {}
                        _ => bad("http.body", "response of an ephemeral append is not the frame".into()),
                    }
                } else if new.len() != 1 {
                    bad("http.effect", format!("append added {} frames", new.len()));
                } else {
                    let f = new[0];
                    if &f.topic != topic || f.context_id != ctx_id || f.ttl != Some(want_ttl.clone()) || &f.meta != meta {
                        bad("http.effect", format!("stored frame {:?} differs from the request (topic {:?} ctx {} ttl {:?} meta {:?})", f, topic, ctx_id, want_ttl, meta));
                    }
                    match (body, &f.hash) {
                        (None, None) => {}
                        (Some(b), Some(h)) => match store.cas_read_sync(h) {
                            Ok(c) if &c == b => {}
                            Ok(c) => bad("http.effect", format!("CAS content has {} bytes, body had {}", c.len(), b.len())),
                            Err(e) => bad("http.effect", format!("CAS content missing: {}", e)),
                        },
                        (None, Some(_)) => bad("http.effect", "append without body produced a hash".into()),
                        (Some(_), None) => bad("http.effect", "append with body produced no hash".into()),
                    }
                    match serde_json::from_slice::<Frame>(&resp.body) {
                        Ok(r) if &r == f => {}
                        Ok(r) => bad("http.body", format!("response frame {:?} != stored frame {:?}", r, f)),
                        Err(e) => bad("http.body", format!("response is not a frame: {}", e)),
                    }
                    if f.id <= before_frames.last().map(|b| b.id).unwrap_or(ZERO_CONTEXT) && !matches!(want_ttl, TTL::Head(_)) {
                        bad("http.effect", "appended frame is not the newest".into());
                    }
                }
                // head:N eviction may remove older frames of that topic asynchronously
                if gone > 0 && !matches!(want_ttl, TTL::Head(_)) {
                    bad("http.effect", format!("append removed {} frames", gone));
                }
            }
        }
        Kind::Get { id } => {
            if !unchanged {
                bad("http.effect", "read-only request changed the store".into());
            }
            match id {
                None => {
                    if class(st) != 4 {
                        bad("http.status", format!("malformed id got {}", st));
                    }
                }
                Some(id) => match store.get(id) {
                    Some(f) => {
                        if st != 200 || serde_json::from_slice::<Frame>(&resp.body).ok() != Some(f) {
                            bad("http.body", format!("GET /id -> {} {:?}", st, String::from_utf8_lossy(&resp.body)));
                        }
                    }
                    None => {
                        if st != 404 {
                            bad("http.status", format!("unknown id got {}", st));
                        }
                    }
                },
            }
        }
        Kind::Remove { id } => match id {
            None => {
                if class(st) != 4 {
                    bad("http.status", format!("malformed id got {}", st));
                }
                if !unchanged {
                    bad("http.effect", "rejected request changed the store".into());
                }
            }
            Some(id) => {
                if class(st) != 2 {
                    bad("http.status", format!("DELETE got {}", st));
                }
                let want: Vec<&Frame> = before_frames.iter().filter(|f| f.id != *id).collect();
                if want.len() != after_frames.len() || want.iter().zip(after_frames.iter()).any(|(a, b)| *a != b) {
                    bad("http.effect", format!("after DELETE the stream has {} frames, expected {}", after_frames.len(), want.len()));
                }
                if store.get(id).is_some() {
                    bad("http.effect", "frame still readable after DELETE".into());
                }
                if after.contexts.contains(id) {
                    bad("http.effect", "context still usable after its registration was deleted".into());
                }
            }
        },
        Kind::Head { topic, ctx, ctx_valid } => {
            if !unchanged {
                bad("http.effect", "read-only request changed the store".into());
            }
            if !ctx_valid {
                if class(st) != 4 {
                    bad("http.status", format!("malformed context got {}", st));
                }
            } else {
                match store.head(topic, ctx.unwrap_or(ZERO_CONTEXT)) {
                    Some(f) => {
                        if st != 200 || serde_json::from_slice::<Frame>(&resp.body).ok() != Some(f) {
                            bad("http.body", format!("GET /head -> {} {:?}", st, String::from_utf8_lossy(&resp.body)));
                        }
                    }
                    None => {
                        if st != 404 {
                            bad("http.status", format!("head of an empty topic got {}", st));
                        }
                    }
                }
            }
        }
        Kind::CasPost { body } => {
            if !unchanged {
                bad("http.effect", "POST /cas changed the stream".into());
            }
            match body {
                None => {
                    if class(st) != 4 {
                        bad("http.status", format!("empty CAS post got {}", st));
                    }
                }
                Some(b) => {
                    if st != 200 {
                        bad("http.status", format!("CAS post got {}", st));
                    } else {
                        let h = String::from_utf8_lossy(&resp.body).to_string();
                        let want = ssri::IntegrityOpts::new().algorithm(ssri::Algorithm::Sha256).chain(b).result().to_string();
                        if h != want {
                            bad("http.body", format!("POST /cas returned {}, sha256 of the body is {}", h, want));
                        }
                        match h.parse::<ssri::Integrity>().ok().and_then(|i| store.cas_read_sync(&i).ok()) {
                            Some(c) if &c == b => {}
                            _ => bad("http.effect", "content not retrievable by the returned hash".into()),
                        }
                    }
                }
            }
        }
        Kind::CasGet { known, well_formed } => {
            if !unchanged {
                bad("http.effect", "read-only request changed the store".into());
            }
            match (known, well_formed) {
                (Some(b), _) => {
                    if st != 200 || &resp.body != b {
                        bad("http.body", format!("GET /cas -> {} with {} bytes", st, resp.body.len()));
                    }
                }
                (None, true) => {
                    if st != 404 {
                        bad("http.status", format!("unknown content hash got {} (documented: 404)", st));
                    }
                }
                (None, false) => {
                    if class(st) != 4 {
                        bad("http.status", format!("malformed hash got {}", st));
                    }
                }
            }
        }
        Kind::Import { frame, storable } => match (frame, storable) {
            (Some(f), true) => {
                if class(st) != 2 {
                    bad("http.status", format!("import got {}", st));
                }
                if store.get(&f.id).as_ref() != Some(f) {
                    bad("http.effect", "imported frame not stored as is".into());
                }
                let mut want: Vec<Frame> = before_frames.iter().filter(|b| b.id != f.id).cloned().collect();
                want.push(f.clone());
                want.sort_by_key(|x| x.id);
                if want != after_frames {
                    bad("http.effect", "import did not put the frame at its id's position".into());
                }
            }
            (Some(_), false) => {
                if st < 400 {
                    bad("http.status", format!("import of an unstorable frame got {}", st));
                }
                if !unchanged {
                    bad("http.effect", "rejected import changed the store".into());
                }
            }
            (None, _) => {
                if class(st) != 4 {
                    bad("http.status", format!("malformed import got {}", st));
                }
                if !unchanged {
                    bad("http.effect", "rejected import changed the store".into());
                }
            }
        },
        Kind::Truncated => {}
        Kind::NoRoute { expect } => {
            if st != *expect && class(st) != 4 {
                bad("http.status", format!("unrouted request got {}", st));
            }
            if !unchanged {
                bad("http.effect", "unrouted request changed the store".into());
            }
        }
    }
    (tag, fs)
}

pub fn run_sequence(seq: &[usize], full: bool, keepalive: bool) -> (Vec<Finding>, String) {
    run_sequence_t(seq, full, keepalive, "")
}

/// `transport`: "" = one request per write; "crlf" = a stray empty line behind every request;
/// "pipelined" = a second request (GET /version) written behind every request without waiting.
pub fn run_sequence_t(seq: &[usize], full: bool, keepalive: bool, transport: &str) -> (Vec<Finding>, String) {
    match transport {
        "crlf" => crate::http::set_trailer(b"\r\n"),
        "pipelined" => crate::http::set_trailer(b"GET /version HTTP/1.1\r\nHost: localhost\r\n\r\n"),
        _ => crate::http::set_trailer(b""),
    }
    let r = run_sequence_inner(seq, full, keepalive);
    crate::http::set_trailer(b"");
    r
}

fn run_sequence_inner(seq: &[usize], full: bool, keepalive: bool) -> (Vec<Finding>, String) {
    let dir = common::scratch_dir("e4");
    let server = Server::start(dir);
    let env = seed(&server.store);
    let its = items(&env, full);
    let mut findings = vec![];
    let mut outcome = vec![];
    let mut conn = if keepalive { Conn::open(&server.sock).ok() } else { None };
    for &i in seq {
        let (tag, fs) = step(&server, &its[i], &mut conn);
        outcome.push(format!("{}={}", its[i].name, tag));
        let dead = fs.iter().any(|f| f.kind == "http.no_response");
        findings.extend(fs);
        // a cut upload ends with the client closing its write side: that connection cannot carry
        // another request
        if keepalive && (dead || its[i].name.contains("cut")) {
            conn = Conn::open(&server.sock).ok();
        }
    }
    // the server must still serve
    let r = crate::http::once(&server.sock, &Req::new("GET", "/version"));
    if r.status != 200 {
        findings.push(Finding { kind: "http.dead".into(), msg: format!("after [{}] GET /version on a new connection got {} {:?}", outcome.join(","), r.status, r.error) });
    }
    server.stop();
    (findings, outcome.join(","))
}

pub fn n_items(full: bool) -> usize {
    let dir = common::scratch_dir("e4n");
    let store = Store::new(dir.clone());
    let env = seed(&store);
    let n = items(&env, full).len();
    common::close_store_async(store);
    n
}

pub fn item_names(full: bool) -> Vec<String> {
    let dir = common::scratch_dir("e4n");
    let store = Store::new(dir.clone());
    let env = seed(&store);
    let n = items(&env, full).iter().map(|i| i.name.clone()).collect();
    common::close_store_async(store);
    n
}

pub fn worker() {
    common::worker_loop(move |job| {
        let seq: Vec<usize> = serde_json::from_value(job["seq"].clone()).unwrap();
        let full = job["full"].as_bool().unwrap_or(false);
        let keepalive = job["keepalive"].as_bool().unwrap_or(false);
        let (fs, outcome) = run_sequence_t(&seq, full, keepalive, job["transport"].as_str().unwrap_or(""));
        json!({
            "findings": fs.iter().map(|f| json!({"kind": f.kind, "msg": f.msg})).collect::<Vec<_>>(),
            "outcome": outcome,
        })
    });
}

pub fn run_c13(tier: &str, report: &mut Report) {
    let thorough = common::tier_is_thorough(tier);
    let t0 = Instant::now();
    let names = item_names(thorough);
    let n = names.len();
    // all sequences of length 1 and 2 (thorough: + keep-alive variants and length 3 over the
    // state-changing / state-reading core)
    let mut jobs = vec![];
    for a in 0..n {
        jobs.push(json!({"seq": [a], "full": thorough, "keepalive": false}));
    }
    for a in 0..n {
        for b in 0..n {
            jobs.push(json!({"seq": [a, b], "full": thorough, "keepalive": false}));
        }
    }
    // the same requests with a stray empty line behind them, and with a second request
    // pipelined behind them: the answer to the first must not change
    for t in ["crlf", "pipelined"] {
        for a in 0..n {
            jobs.push(json!({"seq": [a], "full": thorough, "keepalive": false, "transport": t}));
        }
    }
    if thorough {
        for a in 0..n {
            for b in 0..n {
                jobs.push(json!({"seq": [a, b], "full": thorough, "keepalive": true}));
            }
        }
        let core: Vec<usize> = names
            .iter()
            .enumerate()
            .filter(|(_, nm)| ["cat", "cat-ctx", "post-body", "post-head1", "post-ctx", "post-register", "delete", "delete-ctxreg", "import", "head", "get", "post-meta-nonascii", "cas-get-unknown", "post-unregctx"].contains(&nm.as_str()))
            .map(|(i, _)| i)
            .collect();
        for a in &core {
            for b in &core {
                for c in &core {
                    jobs.push(json!({"seq": [a, b, c], "full": thorough, "keepalive": false}));
                }
            }
        }
    }
    let total = jobs.len();
    let results = common::pool_map("e4", &[], common::ncpu(), jobs.clone());
    let mut outcomes: HashSet<String> = HashSet::new();
    let mut requests = 0u64;
    let mut samples = vec![];
    for (j, r) in jobs.iter().zip(results.iter()) {
        let seq: Vec<usize> = serde_json::from_value(j["seq"].clone()).unwrap();
        requests += seq.len() as u64;
        if r.get("crashed").is_some() {
            eprintln!("HARNESS ERROR: worker crashed on {:?}: {}", seq, r);
            std::process::exit(2);
        }
        let out = r["outcome"].as_str().unwrap_or("").to_string();
        for part in out.split(',') {
            outcomes.insert(part.to_string());
        }
        if samples.len() < 6 && seq.len() > 1 && (seq[0] * 7 + seq[1]) % 97 == 3 {
            samples.push(json!(out));
        }
        for f in r["findings"].as_array().cloned().unwrap_or_default() {
            let kind = f["kind"].as_str().unwrap_or("?");
            let msg = f["msg"].as_str().unwrap_or("");
            let item = msg.split(' ').next().unwrap_or("?");
            report.add_violation(Violation {
                property: "C13".into(),
                signature: format!("E4:{}:{}", kind, if kind == "http.dead" { "after".to_string() } else { item.to_string() }),
                message: format!("sequence [{}]{}: {}", seq.iter().map(|i| names[*i].clone()).collect::<Vec<_>>().join(", "), j["transport"].as_str().map(|t| format!(" ({})", t)).unwrap_or_default(), msg),
                replay: json!({"engine": "e4", "seq": seq, "full": thorough, "keepalive": j["keepalive"], "transport": j["transport"], "names": seq.iter().map(|i| names[*i].clone()).collect::<Vec<_>>()}),
            });
        }
    }
    if samples.is_empty() {
        samples.push(json!("version=200"));
    }
    report.cov("states", json!(total));
    report.cov("transitions", json!(requests));
    report.cov("traces_validated_against_impl", json!(total));
    report.cov("request_alphabet", json!(names));
    report.cov("sequences", json!(total));
    report.cov("requests", json!(requests));
    report.cov("distinct_request_outcomes", json!(outcomes.len()));
    report.cov("exhaustive", json!(true));
    report.cov("samples", json!(samples));
    report.cov("explanation", json!(format!("all request sequences of length 1 and 2 over the {}-request alphabet{} against the real api::serve on a seeded store; each response compared with the Store API on the same store (status class, effect on the raw partitions, NDJSON/SSE rendering), followed by GET /version on a new connection; every single request again with a stray empty line behind it and with a second request pipelined behind it", n, if thorough { " (+ keep-alive variants and length 3 over a 14-request core)" } else { "" })));
    let _ = t0;
    let _ = Duration::from_secs(0);
}

pub fn run_c06_http(report: &mut Report) {
    run_streaming(report, "C06");
    let (fs, evals) = crate::c06::run_scripts();
    for f in fs {
        report.add_violation(Violation {
            property: "C06".into(),
            signature: format!("E5:{}", f.kind),
            message: f.msg,
            replay: json!({"engine": "c06", "case": f.case}),
        });
    }
    let st = report.coverage.get("states").and_then(|v| v.as_u64()).unwrap_or(0);
    report.cov("states", json!(st + evals));
    report.cov("script_level_evaluations", json!(evals));
}

/// The streaming routes (head-follow, cat-follow): the same cases serve C06 (isolation) and C13
/// (the route filters by context exactly like the store operation it fronts).
pub fn run_streaming(report: &mut Report, prop: &str) {
    let cases = crate::c06::cases();
    let results = common::pool_map("c06", &[], common::ncpu(), cases.clone());
    let mut outcomes: HashSet<String> = HashSet::new();
    for (c, r) in cases.iter().zip(results.iter()) {
        if r.get("crashed").is_some() {
            eprintln!("HARNESS ERROR: worker crashed on {}: {}", c, r);
            std::process::exit(2);
        }
        outcomes.insert(r["outcome"].as_str().unwrap_or("").to_string());
        for f in r["findings"].as_array().cloned().unwrap_or_default() {
            let kind = f["kind"].as_str().unwrap_or("?");
            report.add_violation(Violation {
                property: prop.to_string(),
                signature: format!("E4:{}:{}", kind, c["route"].as_str().unwrap_or("")),
                message: f["msg"].as_str().unwrap_or("").to_string(),
                replay: json!({"engine": "c06", "case": c}),
            });
        }
    }
    report.cov("states", json!(cases.len()));
    report.cov("transitions", json!(cases.len() * 4));
    report.cov("traces_validated_against_impl", json!(cases.len()));
    report.cov("distinct_outcomes", json!(outcomes.len()));
    report.cov("samples", json!(cases.iter().take(3).collect::<Vec<_>>()));
    report.cov("explanation", json!("streaming HTTP routes scoped to a context (GET /head/{t}?follow&context=, GET /?follow&context-id= in NDJSON and SSE) x target context (zero / registered / adjacent) x head exists x order of foreign appends; the stream is read up to a sentinel frame of the requested context"));
}

pub fn replay(v: &Value) -> i32 {
    let seq: Vec<usize> = serde_json::from_value(v["seq"].clone()).unwrap();
    let full = v["full"].as_bool().unwrap_or(false);
    let keepalive = v["keepalive"].as_bool().unwrap_or(false);
    let (fs, outcome) = run_sequence_t(&seq, full, keepalive, v["transport"].as_str().unwrap_or(""));
    println!("outcome: {}", outcome);
    for f in &fs {
        println!("finding {}: {}", f.kind, f.msg);
    }
    if fs.is_empty() {
        0
    } else {
        1
    }
}
