#!/usr/bin/env python3
"""usage: tools/seed_meta.py <name> [<name> ...]  -- (re)write seeded/<name>/meta.json and the seed's MATRIX.md row from the
logs left by tools/confirm_seed.sh (result.env) and tools/check_seed.sh (check_quick.log); same format as seed_matrix.sh."""
import json, os, re, sys
ROOT = "/verif/seeded"
def one(name, tier="quick"):
    d = os.path.join(ROOT, name)
    idp = name.split("-")[0]
    if os.path.exists(d + "/CHECKED_BY"):
        idp = open(d + "/CHECKED_BY").read().strip()
    log = open(f"{d}/check_{tier}.log", errors="replace").read()
    first = next((l[11:260].replace("|", "/").strip() for l in log.splitlines() if l.startswith("violation:")), "")
    rc = 1 if re.search(r"^VIOLATION property=", log, re.M) else (0 if re.search(r"quick: 0 violation", log) else 2)
    env = {}
    if os.path.exists(d + "/result.env"):
        for l in open(d + "/result.env"):
            if "=" in l:
                k, v = l.strip().split("=", 1); env[k] = v
    meta = {"property": idp,
     "origin": "independent sub-agent given only the property text and a scratch worktree of /repo (nothing from /verif)",
     "what_it_needs_to_manifest": "see notes.md (written by the sub-agent)",
     "confirmed_in_scratch_worktree": {"existing_suite_with_change_exit": env.get("suite_with_change_exit"), "demo_with_change_exit": env.get("demo_with_change_exit"), "demo_without_change_exit": env.get("demo_without_change_exit"),
       "how": "tools/confirm_seed.sh: nextest baseline command on the patched worktree; cargo test --test seed_demo with and without patch.diff"},
     "check": {"command": f"./check {idp} {tier}", "exit": rc, "detected": rc == 1, "first_violation": first}}
    json.dump(meta, open(d + "/meta.json", "w"), indent=1)
    suite = "pass" if env.get("suite_with_change_exit") == "0" else str(env.get("suite_with_change_exit"))
    demo = ("fail" if env.get("demo_with_change_exit") not in (None, "0") else "pass?") + " / " + ("pass" if env.get("demo_without_change_exit") == "0" else "?")
    row = f"| {name} | {idp} | {suite} | {demo} | exit {rc} | {first} |\n"
    m = os.path.join(ROOT, "MATRIX.md")
    lines = [l for l in open(m) if not l.startswith(f"| {name} |")]
    lines.append(row)
    head, rows = lines[:2], sorted(lines[2:], key=lambda l: l.split("|")[1].strip())
    open(m, "w").writelines(head + rows)
    print(name, "exit", rc, first[:100])
for n in sys.argv[1:]:
    one(n)
