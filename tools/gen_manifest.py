#!/usr/bin/env python3
"""Generates /verif/MANIFEST.json from the table below (single source of truth)."""
import json, os, subprocess
HERE = os.path.dirname(os.path.dirname(os.path.abspath(__file__)))

E1_NOTE = ("Trusted: fjall/lsm-tree, cacache, tokio, scru128 (explored through, not modelled); tmpfs scratch; "
           "bounded alphabet and depth as reported in the evidence; in-process reopen (real restarts are C17's).")
E2_NOTE = ("Trusted: tokio channels, fjall, scru128 inside one step; scheduling points are the verif hook points of DESIGN.md §2.1 "
           "(every channel operation of Store::read, the append lock / id / commit / broadcast steps); preemption bound, scenarios and "
           "heartbeat tick horizon as reported in the evidence.")
CHECKS = {
 "C01": dict(engine="E1-seq", cat="model_checking", ref="DESIGN.md §5 C01, §4 E1",
   technique="explicit-state BFS over operation histories, each transition replayed on the real store against a reference model",
   text="All histories of the C01 menu (append/import/remove/clock/GC/flush/reopen over prefix-related topics, 2-3 contexts, forever+time TTLs) up to the reported depth are executed on the real store; after every step every by-id lookup and the full (context,last-id,limit) product on both read paths is compared with the reference model.",
   note=E1_NOTE),
 "C05": dict(engine="E1-seq+E2-sched", cat="model_checking", ref="DESIGN.md §5 C05",
   technique="explicit-state BFS over operation histories on the real store; differential oracle between the three access paths and head; preemption-bounded schedule DFS for import vs remove vs append of the same frame",
   text="All histories over adversarial topics (empty, prefix-related, 0x01, U+00FF, multi-byte, NUL) and adjacent contexts up to the reported depth; in every quiescent state by-id, all-stream, context-stream and head(topic,context) for the whole alphabet are compared with each other on the real store; the histories include imports of a different frame under a stored id (other topic, other context). Plus (E2) an importer, a remover and an appender acting on the same frame under all interleavings of their commit steps, with the same agreement oracle at quiescence.",
   note=E1_NOTE),
 "C07": dict(engine="E1-seq+E2-sched", cat="model_checking", ref="DESIGN.md §5 C07",
   technique="explicit-state BFS over registration/removal/import/append/reopen histories on the real store; preemption-bounded schedule DFS for unregister vs append",
   text="All histories over register (each TTL), remove, import of registrations (adjacent / older ids), imports of a registration under the id of an ordinary frame and of an ordinary frame under the id of a registration, append into zero / registered / removed / never-registered contexts and reopen, up to the reported depth; acceptance must equal usable(ctx) computed from the stored frames, rejected appends leave the raw partitions, the registry and a live subscriber untouched. Plus (E2) the removal of a registration frame racing one or two appenders into that context under all interleavings of its registry-update / commit steps: no append that began after an observer found the registration gone may be accepted.",
   note=E1_NOTE + " E2 part: scheduling points are the verif hooks ctx.unregister, commit.pre/post and append.*."),
 "C08": dict(engine="E1-seq", cat="model_checking", ref="DESIGN.md §5 C08/C09",
   technique="explicit-state BFS with the clock and the GC worker as explicit operations, lower-bound (must-be-present) oracle",
   text="All histories over 2 prefix-related topics x 2 contexts x all five TTL spellings with remove, clock positions exp-1/exp/exp+1, read batteries, single GC steps and drains, reopen; every frame that is not removed, not expired and not evictable by the statement must be returned by every in-scope lookup in every state.",
   note=E1_NOTE),
 "C09": dict(engine="E1-seq+E2-sched", cat="model_checking", ref="DESIGN.md §5 C08/C09",
   technique="explicit-state BFS with the clock and the GC worker as explicit operations, upper-bound (must-be-absent) oracle",
   text="Same search as C08 with the upper-bound oracle: ephemeral frames reach exactly the live subscriber and are never stored; no read returns an elapsed time:N frame; after a covering read and a drain it is physically gone; after a drain a topic whose newest frame is head:N holds at most N frames forming a suffix. Plus (E2) a clock actor that passes the expiry of a stored time:N frame at every point of a (following or plain) read: the frame is not delivered once the clock had passed its expiry before the scan reached it. Plus long topics (backlog of 66-260 frames, one head:K frame, one drain).",
   note=E1_NOTE),

 "C02": dict(engine="E2-sched", cat="model_checking", ref="DESIGN.md §5 C02, §4 E2",
   technique="stateless preemption-bounded DFS over all interleavings of the real writer threads under a controlled scheduler, with a state observer at every decision point",
   text="Every interleaving (within the preemption bound) of 2-3 concurrent Store::append calls at lock / id / commit / broadcast granularity, with and without followers; at every decision point an observer re-reads every scope and a last-id poller advances: the visible stream may only grow at its end, followers receive ids in increasing order, the poller reconstructs the final stream exactly. A script-appenders run (handler, command and generator emitting from their own threads while a client appends) and a hook-free multi-writer stress run (4 writers, follower, last-id poller) are appended as supplementary detectors for reorderings inside one scheduling step; it is a sample and not the deciding step.",
   note=E2_NOTE),
 "C03": dict(engine="E2-sched", cat="model_checking", ref="DESIGN.md §5 C03",
   technique="stateless preemption-bounded DFS over the real subscribe/scan/hand-off/live steps of Store::read interleaved with appenders",
   text="For pre-histories of 0-3 (and 101) frames, start positions beginning / last-id / tail, all-contexts and scoped readers, writers appending stored and ephemeral frames in every order: every interleaving (within the bound) of the writers' append steps with the reader's subscribe, every historical send, threshold, done hand-off, live receive/send and consumer receive on the real code; required / optional / forbidden deliveries are derived from the statement and the explorer's own event order.",
   note=E2_NOTE),
 "C11": dict(engine="E2-sched", cat="model_checking", ref="DESIGN.md §5 C11",
   technique="stateless preemption-bounded DFS over Store::read with limit / tail / heartbeat / small channel capacities under a controlled scheduler",
   text="limit n in {1,2} against histories n-1, n, n+1, follow off / on / heartbeat, tail, last-id+context, a second plain follower, and lagging consumers (broadcast capacity 2, delivery capacity 1): all interleavings within the bound; delivered frames must be exactly the first n, the stream must then end (probed by one more matching append), synthetic frames go only to their stream, nothing continues past a skipped frame.",
   note=E2_NOTE),

 "C12": dict(engine="E6-enum+E4-http", cat="model_checking", ref="DESIGN.md §5 C12, §4 E6",
   technique="bounded exhaustive enumeration of input shapes (token grammars) through the real parsers and the real HTTP boundary, round-trip and rejection oracles",
   text="Every TTL string of <=3 tokens over a 17-token alphabet through parse_ttl, both spellings and POST /t?ttl=; every ReadOptions value of an 8x2x2x4x3 product and every <=3-pair query string through to_query_string/from_query; every meta text of the alphabet (integer extremes, escapes, surrogates, nesting depth 1..200) through POST /{topic} and frames over topic x hash x ttl x meta through POST /import; frames built as Rust values (TTL values no string spells x metas) through Store::append / Store::insert_frame; after every acceptance the store is re-read on all paths (a reading panic is a violation).",
   note="Trusted: serde_json, serde_urlencoded, ssri, hyper. Bounded by the token alphabets in coverage.rule; values outside them are not covered."),
 "C13": dict(engine="E4-http", cat="model_checking", ref="DESIGN.md §5 C13, §4 E4",
   technique="exhaustive enumeration of request sequences up to length 2 (3 on a core) against the real HTTP server, differential oracle against the Store API on the same store",
   text="All sequences of length 1-2 over a ~50-request alphabet covering every route valid and with each kind of damage (ids, contexts, TTLs, options, xs-meta incl. non-ASCII header bytes, bodies none/small/70000 chunked, CAS hashes, unknown methods), each on a fresh seeded store behind the real api::serve over the unix socket with a raw HTTP/1.1 client; every response must exist, have the right status class, the right effect on the raw partitions, and NDJSON/SSE bodies must decode to what Store::read returns; GET /version must still work afterwards; every single request again with a stray empty line behind it and with a second request pipelined behind it.",
   note="Trusted: hyper's HTTP/1 parsing, tokio. Any 2xx counts as success; follow streams are covered by C03/C06/C11 at the Store API."),

 "C06": dict(engine="E1-seq+E2-sched+E4-http+E5", cat="model_checking", ref="DESIGN.md §5 C06",
   technique="explicit-state BFS (store paths), preemption-bounded schedule DFS (follow paths) and exhaustive HTTP streaming cases, all on the real code",
   text="Zero context + two registered contexts with numerically adjacent ids, the same topics in all three: (E1) all histories up to the reported depth with the full (context,last-id,limit) read battery on both read paths and head for every (topic,context); (E1 also moves a frame into another context by importing it again under its id) (E2) scoped followers from start / tail / last-id+limit against writers in every context under all interleavings within the bound; (E4) every streaming HTTP route taking a context (head-follow with and without the context parameter, cat-follow NDJSON+SSE) x target context x head present x order of foreign appends, read up to a sentinel; (E5) .cat / .cat --last-id / .head / .head --context inside a handler and inside a command of context B, handler dispatch (a frame of A must not trigger it) and handler output with --context A. Nothing of another context may ever be delivered.",
   note="Trusted as in E1/E2/E4/E5."),
 "C10": dict(engine="E6-enum+observer", cat="model_checking", ref="DESIGN.md §5 C10",
   technique="bounded exhaustive enumeration of byte strings x content entry points with an independent SHA-256 oracle, plus a hook-level observer reading the content of every hashed frame before it can become visible",
   text="6 byte strings around the buffer sizes (empty, 1, non-UTF-8, 8192, 8193, 70000) through 8 entry points (Store CAS API in both size-hinted and streaming forms, POST /cas and POST /{topic}, plain and chunked); every reported hash must equal an independently computed sha256 integrity string, be equal across entry points, return the bytes, and survive a reopen; an observer installed at the append hook reads the content of every hashed frame at the moment its id is assigned, on whatever thread appends it; every non-empty input again through refused / cut requests (unregistered context, NUL topic, bad ttl, bad xs-meta, cut uploads, NUL-topic import): the content of the visible frames that reference the same bytes must stay retrievable; (E1) all histories over frames sharing content, removed / evicted / expired one by one.",
   note="Trusted: cacache. A failed write makes no claim. Crash images are C04's part; script entry points (nu .append, handler/command/generator output) are exercised by the lifecycle engine with the same observer."),
 "C20": dict(engine="E1-seq+E4-http", cat="model_checking", ref="DESIGN.md §5 C20",
   technique="explicit-state BFS over source histories; for every reachable source state every permutation (and single-frame duplication) of the import order through the real POST /cas and POST /import routes, differential oracle source vs target",
   text="Every source store reachable by the C20 menu (register, appends in 2-3 contexts with all persistent TTLs, shared content, removes, GC) up to the reported depth is exported as xs.nu does and imported through HTTP into a fresh store in every permutation of its <=4 frames plus every single-frame duplication; source and target must agree on every stream, head, by-id lookup, content and usable context (tested by real appends), re-import must be a no-op and a NUL-topic frame must be rejected whole.",
   note=E1_NOTE),

 "C04": dict(engine="E3-crash", cat="fault_enumeration", ref="DESIGN.md §5 C04, §4 E3",
   technique="exhaustive crash-point enumeration: strace of the real write paths, every syscall prefix materialised as process-kill / power-loss / torn-write images, each reopened by a fresh process and compared with the acknowledged history",
   text="Five scripted histories over the real write paths (Store API; 12 KiB frames whose batches exceed fjall's 8 KiB buffer; the HTTP routes with CAS bodies; forced memtable flushes with segment files, journal rotation and manifest renames; a duplicate remove / import arriving while the first one is between commit and fsync, then an import that replaces a stored frame under its id and an import the store refuses under a stored id) are traced at system-call granularity. For every prefix of the store-directory mutations from the first acknowledged operation on, and for the moment right after every acknowledgement, the process-kill image and - wherever the journal holds unsynced bytes - the power-loss image and torn tails of the last unsynced write are reopened: the store must open, every acknowledged append/remove/import must be reflected, the operation in flight must be all-or-nothing across by-id / all-stream / context-stream / head, the registry must equal the stored registrations, and on kill images every visible hash must have its content. Second generation: process-kill images taken inside an import / remove are reopened by a second traced process that sends the same request again; kill and power-loss images after its acknowledgement must contain the operation. Third generation (fault during recovery): process-kill images are reopened by a traced process that only recovers; every prefix of the recovery's own file-system mutations yields a kill image and a power-loss image that a third process must open and that must show the same acknowledged history.",
   note="Trusted: strace's rendering (checked: the interpreted final state equals the real directory byte for byte), fjall's recovery code is the subject not the model. Power loss is modelled as loss of unsynced journal suffixes and torn tails, not arbitrary sector reordering; directory entries are kept; crash points inside the first creation of the store directory are not enumerated; double faults in the kill-reopen-retry and kill-reopen-kill forms (first fault a process kill)."),

 "C15": dict(engine="E5-lifecycle", cat="model_checking", ref="DESIGN.md §5 C15",
   technique="bounded exhaustive enumeration of handler programs (script grammar) executed by the real handler machinery, per-call oracle from the statement",
   text="Every handler script of the grammar {0..2 explicit .append x flags (none, --meta colliding with the stamps, --ttl, --context other), plus appends the store refuses at emission (xs.context outside the zero context, NUL topic) in first/middle/last position} x {return nothing/string/int/float/bool/list/record/empty values} x {return_options none/suffix/ttl head/ttl time/ephemeral} x {failure none/before/between/after the appends} is registered on a fresh store behind the real handlers::serve, triggered once and flushed by a sentinel: order, stamps overriding user meta, forced context, TTLs, CAS content == JSON rendering, nothing at all on failure plus exactly one unregistered with the error.",
   note="Trusted: nushell (explored through). The serve loop's schedule is the OS's; programs are enumerated, schedules are C03/C16's. quick = every value of every dimension and all pairs with the append shape; thorough = the full product."),
 "C16": dict(engine="E2-sched+E5-lifecycle", cat="model_checking", ref="DESIGN.md §5 C16",
   technique="all interleavings of the handler start-up (spawner announce / task start+subscribe / client) under the controlled scheduler, plus exhaustive lifecycle histories against a reference model",
   text="(a) every schedule of {spawner: announce .registered} x {handler task start} x {client: wait until .registered is visible, append trigger} for resume modes tail / head / after-id on the real Handler::spawn, then a flush frame: the trigger must be processed exactly once. (b) every history of register / invalid register / unregister / ok trigger / failing trigger over 2 names x 2 contexts up to depth 3 (4 thorough): exactly one unregistered per stop with id (and error), stored durably, the active instance and nobody else answers later frames. (c) cold starts: every log of 1..3 valid / non-constructible registrations appended before the service starts.",
   note="(a) scheduling points are the verif hooks in Handler::spawn. (b) the serve loops' schedule is the OS's; absence of an answer is decided after all expected answers arrived plus a 40 ms grace period (a slower zombie would be missed, never a false alarm)."),

 "C18": dict(engine="E5-lifecycle", cat="model_checking", ref="DESIGN.md §5 C18",
   technique="bounded exhaustive enumeration of generator expressions, lifecycles, spawn errors and duplex send sequences against the real generators::serve",
   text="Expressions yielding 0..3 strings as single value / list value / lazy stream x context x 1-2 consecutive lifecycles (real 1 s restart delay): start, recv per string with that content, stop, restart, all stamped with the spawn id and in the spawn's context; spawn without content, spawn for a running name (exactly one spawn.error naming it), the same name in another context (independent); rejected-spawn lifecycles (duplicate / content-less spawns while an instance exists, then its stop, restart, a further spawn and sends); duplex echo with 0..3 sends, with interleaved unrelated traffic, a send before the instance, a same-name send in another context and a look-alike topic, closed by a sentinel send; sends of very different sizes (4 MiB .. 1 byte) back to back.",
   note="Trusted: nushell. Expressions that fail to parse, yield non-strings or the empty string are outside the grammar. Sentinel-based quiescence; the restart delay is real time."),
 "C19": dict(engine="E5-lifecycle", cat="model_checking", ref="DESIGN.md §5 C19",
   technique="bounded exhaustive enumeration of command programs and of define/call histories (incl. overlapping calls) against the real commands::serve",
   text="(a) every command script of {8 output shapes} x {explicit .append} x {eager runtime error} x {return_options} x {no module / pure module helper / side append inside a module function}: recv per value in order with the JSON rendering as content, then exactly one complete, or exactly one error; stamps, context, TTL, suffix. (b) every history of define / invalid define / call / two overlapping calls over 2 names x 2 contexts up to depth 3 (4 thorough) ending in an observation: each call is served exactly once by the latest valid definition of its own context; results carry the call id (no mixing between overlapping calls), a per-call env counter must read 0 (no state leak); calls without a definition in their context produce nothing.",
   note="Trusted: nushell. The schedule of overlapping calls is the OS's (mixing is detectable under any schedule because results embed the call id). Absence is decided after the expected terminal events plus a 60 ms grace period. No-replay-after-restart is C17's check."),

 "C17": dict(engine="E5-lifecycle (real binary)", cat="model_checking", ref="DESIGN.md §5 C17",
   technique="bounded exhaustive enumeration of lifecycle histories x restart points x {SIGKILL, SIGTERM} against the real `xs serve` child process, reference model of the active set",
   text="Histories of register / unregister / replace / closure error, spawn / failing spawn, define / invalid define / call over 2 names x 2 contexts with the same name used in both contexts (quick: a fixed family of 21 histories x last two restart points x both signals; thorough: + every history of depth <= 3 over a 16-event alphabet x every restart point). Plus histories whose last events reached the log without any consequence (appended while the server is down: a crash between the arrival of an event and its processing). After the restart, sentinels prove every serve loop is live; the handlers announced and the generators started must be exactly the active ones with their old ids, each answers a probe, commands are served by the latest definition of their own context, nothing that was stopped answers, no historical trigger or call is executed again.",
   note="The child is the real `xs serve` binary built from /repo's working tree; its internal schedule is the OS's. Restart points are quiescent boundaries of the history (crash points inside an operation are C04's). Absence is decided after the expected answers plus an 80 ms grace period."),

 "C14": dict(engine="E5-lifecycle", cat="model_checking", ref="DESIGN.md §5 C14, §10 (fallback)",
   technique="bounded exhaustive enumeration of handler histories (resume mode x pre-history x co-resident handler x burst composition) on the real handler machinery; complete invocation sequence reconstructed from the handler's own outputs and compared with the stream",
   text="Resume mode tail / head / after-id x pre-history with or without an earlier instance of the same name (its register/unregister traffic and output) x a second handler in the same context x bursts of 0/1/3 frames (stored, optionally mixed with ephemeral ones) from two writers into the handler's context and into another context while it is busy x the after-id resume point (oldest / newest / last frame / an id of another context); a frame carrying another handler's stamp is part of every history. The handler answers every frame with a per-instance counter; the sequence of meta.frame_id on its outputs must equal the context's stream after the resume point minus its own outputs and stale registration traffic - once each, strictly increasing, nothing of another context, one threshold for non-tail modes - and the counter must run 1,2,3,... (one at a time, env carried over).",
   note="DESIGN.md §10 fallback applies: histories and burst compositions are enumerated, the interleaving of a burst with the busy handler is the OS's; the schedule dimension of the stream the handler consumes is decided exhaustively by C03 and the start-up race by C16."),
}
NOT_YET = {}
ALL = ["C%02d" % i for i in range(1, 21)]

def main():
    checks = []
    for pid in ALL:
        if pid not in CHECKS: continue
        c = CHECKS[pid]
        checks.append({
            "property_id": pid,
            "quick_cmd": f"./check {pid} quick",
            "thorough_cmd": f"./check {pid} thorough",
            "evidence_file": f"/verif/evidence/{pid}.json",
            "replay_cmd_template": f"./check {pid} --replay {{path}}",
            "engine": c["engine"],
            "level_claimed": {"category": c["cat"], "text": c["text"], "design_ref": c["ref"]},
            "level_note": c["note"],
            "technique": c["technique"],
        })
    na = [{"property_id": p, "reason": NOT_YET.get(p, "check not built yet in this revision (work in progress; see DESIGN.md §10 for the order)")}
          for p in ALL if p not in CHECKS]
    try:
        commits = subprocess.check_output(["git", "-C", "/repo", "log", "--format=%h %s", "084b940..HEAD"], text=True).strip().splitlines()
    except Exception:
        commits = []
    hooks = [c.split()[0] for c in commits if c.split(" ", 1)[1].startswith("verif hooks")][::-1]
    m = {
        "version": 1,
        "setup_cmd": "cd /verif/engine && CARGO_NET_OFFLINE=true CARGO_TARGET_DIR=/verif/target cargo build --offline && cd /repo && CARGO_NET_OFFLINE=true cargo build --offline --bin xs --features verif --target-dir /verif/target --config profile.dev.debug=0",
        "hooks": {
            "guard": "cargo feature `verif` of crate cross-stream (cfg(feature = \"verif\"))",
            "enable": "the harness crate /verif/engine depends on cross-stream {path=/repo, features=[\"verif\"]}; ./check rebuilds it from /repo's working tree on every run",
            "baseline_off_cmd": "cd /repo && cargo nextest run --workspace --no-fail-fast --tool-config-file pb:/w/lib/nextest.toml --profile pb --test-threads 8 --offline",
            "source_commits": hooks,
            "add_only": True,
        },
        "engines": [
            {"name": "E5-lifecycle", "path": "engine/src/e5.rs, engine/src/c15.rs, engine/src/c16.rs", "serves_properties": ["C14", "C15", "C16", "C17", "C18", "C19"],
             "kind_free_text": "real handlers/generators/commands serve loops on a real store, driven through the Store API, sentinel-based quiescence"},
            {"name": "E3-crash", "path": "crash/crashenum.py, engine/src/crash.rs", "serves_properties": ["C04"],
             "kind_free_text": "strace-based crash-image enumerator (python) + traced driver and recovery checker (Rust)"},
            {"name": "E4-http", "path": "engine/src/http.rs, engine/src/e4.rs", "serves_properties": ["C13", "C12"],
             "kind_free_text": "real api::serve on a fresh store per sequence, raw HTTP/1.1 client over the unix socket, exhaustive request sequences"},
            {"name": "E6-enum", "path": "engine/src/e6.rs", "serves_properties": ["C12"],
             "kind_free_text": "bounded exhaustive input-grammar enumeration through the real parsers and boundary"},
            {"name": "E2-sched", "path": "engine/src/sched.rs, engine/src/e2.rs", "serves_properties": [p for p in ALL if CHECKS.get(p, {}).get("engine", "").startswith("E2")],
             "kind_free_text": "hand-rolled controlled scheduler over the verif hook points; stateless DFS with iterative preemption bounding over real threads and tokio tasks"},
            {"name": "E1-seq", "path": "engine/src/seq.rs, engine/src/model.rs", "serves_properties": [p for p in ALL if CHECKS.get(p, {}).get("engine", "").startswith("E1")],
             "kind_free_text": "explicit-state breadth-first search over operation histories; every transition executed on a fresh real store; reference model in Rust"},
        ],
        "checks": checks,
        "not_applicable": na,
        "notes": "All checks: exit 0 = held on everything explored; exit 1 + VIOLATION line = counterexample archived under /verif/replays; exit 2 = harness error (never a verdict). known_findings.json lists recorded defects.",
    }
    json.dump(m, open(os.path.join(HERE, "MANIFEST.json"), "w"), indent=1)
    print("wrote MANIFEST.json:", len(checks), "checks,", len(na), "not claimed")

main()
