#!/usr/bin/env python3
"""Own deliberate property-breaking changes ("Breaks it" of DESIGN.md §5): each is applied to /repo, the
owning check must exit 1, then /repo is reverted. usage: tools/selftest.py [name-substring]"""
import subprocess, sys, json, os, time
M = [
 ("c01-context-key-slice", "C01", "src/store/mod.rs", "let frame_id_bytes = &key[16..];", "let frame_id_bytes = &key[..16];"),
 ("c01-included-bound", "C01", "src/store/mod.rs", "                    Bound::Excluded(v)\n                } else {", "                    Bound::Included(v)\n                } else {"),
 ("c03-snapshot-scan-included-bound", "C03", "src/store/mod.rs", "                        Bound::Excluded(v)\n                    }\n                    None => Bound::Included(ctx_id.as_bytes().to_vec()),", "                        Bound::Included(v)\n                    }\n                    None => Bound::Included(ctx_id.as_bytes().to_vec()),"),
 ("c07-no-reload", "C07", "src/store/mod.rs", "                store.contexts.write().unwrap().insert(frame.id);\n            }\n        }\n\n        // Spawn gc worker thread", "            }\n        }\n\n        // Spawn gc worker thread"),
 ("c07-remove-keeps-registry", "C07", "src/store/mod.rs", "self.verif.point(\"ctx.unregister\", Some(&frame));\n            self.contexts.write().unwrap().remove(&frame.id);\n", "self.verif.point(\"ctx.unregister\", Some(&frame));\n"),
 ("c07-import-over-registration-keeps-registry", "C07", "src/store/mod.rs", "        } else if replaced.is_some() {\n            self.contexts.write().unwrap().remove(&frame.id);\n", "        } else if replaced.is_some() {\n"),
 ("c05-import-over-keeps-old-index", "C05", "src/store/mod.rs", "            batch.remove(&self.idx_topic, idx_topic_key_from_frame(old)?);\n", ""),
 ("c08-expiry-in-seconds", "C08", "src/store/mod.rs", "created_ms.saturating_add(ttl.as_millis() as u64)", "created_ms.saturating_add(ttl.as_secs())"),
 ("c09-ephemeral-stored", "C09", "src/store/mod.rs", "        if frame.ttl != Some(TTL::Ephemeral) {\n            // the id was assigned above", "        {\n            // the id was assigned above"),
 ("c09-skip-keep-plus-one", "C09", "src/store/mod.rs", ".skip(keep as usize)", ".skip(keep as usize + 1)"),
 ("c03-history-scans-the-live-store", "C03", "src/store/mod.rs", "store.iter_frames_at(replay_at, options.context_id, options.last_id.as_ref())", "store.iter_frames_at(None, options.context_id, options.last_id.as_ref())"),
 ("c03-no-live-context-filter", "C06", "src/store/mod.rs", "                            if frame.context_id != context_id {\n                                continue;\n                            }\n", ""),
 ("c13-delete-is-a-noop", "C13", "src/api.rs", "    match store.remove(&id) {", "    match Ok::<(), crate::error::Error>(()) {"),
 ("c12-ttl-query-in-seconds", "C12", "src/store/ttl.rs", "TTL::Time(duration) => format!(\"ttl=time:{}\", duration.as_millis()),", "TTL::Time(duration) => format!(\"ttl=time:{}\", duration.as_secs()),"),
 ("c12-heartbeat-in-seconds", "C12", "src/store/mod.rs", "params.push((\"follow\", duration.as_millis().to_string()));", "params.push((\"follow\", duration.as_secs().to_string()));"),
 ("c15-context-not-forced", "C15", "src/handlers/handler.rs", "            output_frame.context_id = self.context_id;\n", ""),
 ("c19-complete-before-last-result", "C19", "src/commands/serve.rs", "                    .hash(hash)\n                        .meta(serde_json::json!({\n                            \"command_id\": command.id.to_string(),\n                            \"frame_id\": frame.id.to_string(),", "                    .hash(hash)\n                        .meta(serde_json::json!({\n                            \"command_id\": frame.id.to_string(),\n                            \"frame_id\": frame.id.to_string(),"),
 ("c20-import-rewrites-id", "C20", "src/api.rs", "    let frame: Frame = match serde_json::from_slice(&bytes) {\n        Ok(frame) => frame,", "    let frame: Frame = match serde_json::from_slice::<Frame>(&bytes) {\n        Ok(mut frame) => {\n            if frame.ttl == Some(TTL::Forever) {\n                frame.ttl = None;\n            }\n            frame\n        }"),
 ("c08-stale-topic-index-miscounts-head", "C08", "src/store/mod.rs", "        batch.remove(&self.idx_topic, topic_key);\n", ""),
 ("c02-id-outside-lock-no-hook-between", "C02", "src/store/mod.rs", "        let _append_guard = self.append_lock.lock().unwrap();\n        frame.id = scru128::new();\n", "        frame.id = scru128::new();\n        let _append_guard = self.append_lock.lock().unwrap();\n"),
 ("c02-broadcast-outside-lock", "C02", "src/store/mod.rs", "        let _append_guard = self.append_lock.lock().unwrap();\n        frame.id = scru128::new();\n", "        let _append_guard = if frame.topic == \"xs.context\" { Some(self.append_lock.lock().unwrap()) } else { None };\n        frame.id = scru128::new();\n"),
 ("c03-snapshot-instant-before-the-lock", "C03", "src/store/mod.rs", "            #[cfg(feature = \"verif\")]\n            self.verif.point_lock(\"read.lock\", &self.append_lock);\n            let _append_guard = self.append_lock.lock().unwrap();\n            (\n                Some(self.broadcast_tx.subscribe()),\n                Some(self.keyspace.instant()),\n            )", "            let at = self.keyspace.instant();\n            #[cfg(feature = \"verif\")]\n            self.verif.point_lock(\"read.lock\", &self.append_lock);\n            let _append_guard = self.append_lock.lock().unwrap();\n            (Some(self.broadcast_tx.subscribe()), Some(at))"),
 ("c04-ack-before-remove-sync", "C04", "src/store/mod.rs", "        self.verif.point(\"commit.sync\", Some(&frame));\n        self.keyspace.persist(fjall::PersistMode::SyncAll)?;", "        self.verif.point(\"commit.sync\", Some(&frame));\n        self.keyspace.persist(fjall::PersistMode::Buffer)?;"),
 ("c04-already-deleted-returns-without-sync", "C04", "src/store/mod.rs", "            self.keyspace.persist(fjall::PersistMode::SyncAll)?;\n            return Ok(());", "            return Ok(());"),
]
sel = sys.argv[1] if len(sys.argv) > 1 else ""
# evidence and replays of runs against changed trees never land in /verif
os.environ["XSMC_OUT"] = "/tmp/xsmc-seed-out"; os.makedirs("/tmp/xsmc-seed-out", exist_ok=True)
res = []
for name, prop, f, old, new in M:
    if sel not in name: continue
    p = os.path.join("/repo", f)
    s = open(p).read()
    if s.count(old) != 1:
        print(f"{name}: anchor found {s.count(old)} times - skipped"); res.append((name, prop, "anchor?")); continue
    open(p, "w").write(s.replace(old, new))
    t0 = time.time()
    r = subprocess.run(["/verif/check", prop, "quick"], capture_output=True, text=True)
    subprocess.run(["git", "-C", "/repo", "checkout", "--", "."])
    first = next((l for l in r.stdout.splitlines() if l.startswith("violation:")), "")[:200]
    print(f"{name}: {prop} exit {r.returncode} in {time.time()-t0:.0f}s :: {first}")
    res.append((name, prop, r.returncode))
    if r.returncode == 2:
        print(r.stderr[-600:])
json.dump(res, open("/verif/selftest/last_run.json", "w"), indent=1)
bad = [x for x in res if x[2] != 1]
print("NOT DETECTED / ERROR:", bad)
