#!/bin/bash
# usage: tools/check_seed.sh <Cnn> [<name>] [quick|thorough]  -- run the property's check against seeded/<name>/patch.diff applied to /repo, then undo
set -u
ID="$1"; NAME="${2:-$1}"; TIER="${3:-quick}"; OUT="/verif/seeded/$NAME"
cd /verif
PATCH="$OUT/patch.diff"; [ -f "$OUT/patch.ported.diff" ] && PATCH="$OUT/patch.ported.diff"
git -C /repo apply "$PATCH" || { echo "patch does not apply to /repo"; exit 1; }
# evidence and replays of a run against a changed tree never land in /verif
export XSMC_OUT=/tmp/xsmc-seed-out; mkdir -p "$XSMC_OUT"
./check "$ID" "$TIER" > "$OUT/check_$TIER.log" 2>&1; CHECK=$?
git -C /repo checkout -- .
echo "check_exit=$CHECK"
grep -E "^VIOLATION|^violation|HARNESS" "$OUT/check_$TIER.log" | cut -c1-400 | head -4

