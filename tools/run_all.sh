#!/bin/bash
# usage: tools/run_all.sh [quick|thorough]  -- run every registered check, one line each
TIER="${1:-quick}"
cd "$(dirname "$0")/.."
FAIL=0
for id in $(python3 -c "import json;print(' '.join(c['property_id'] for c in json.load(open('MANIFEST.json'))['checks']))"); do
    S=$(date +%s.%N)
    OUT=$(./check $id $TIER 2>&1); RC=$?
    E=$(date +%s.%N)
    printf "%s rc=%s %.1fs :: %s\n" "$id" "$RC" "$(echo "$E - $S" | bc)" "$(echo "$OUT" | grep -E "^C[0-9]+ (quick|thorough)" | tail -1 | cut -c1-90)"
    if [ $RC -ne 0 ]; then FAIL=1; echo "$OUT" | grep -E "^VIOLATION|^violation|HARNESS" | head -3 | cut -c1-300; fi
done
python3-vt - <<'PY'
import json,jsonschema,glob
jsonschema.validate(json.load(open('MANIFEST.json')), json.load(open('/root/.vp/MANIFEST.schema.json')))
import os
for f in glob.glob(os.environ.get('XSMC_OUT','.')+'/evidence/*.json'):
    jsonschema.validate(json.load(open(f)), json.load(open('/root/.vp/EVIDENCE.schema.json')))
print('schemas ok')
PY
exit $FAIL
