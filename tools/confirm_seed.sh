#!/bin/bash
# usage: tools/confirm_seed.sh <Cnn> [<name>]   -- confirm a sub-agent's change in its scratch worktree /tmp/wt-<name>,
# copy it to /verif/seeded/<name>/, run the property's check against it in /repo, undo.
set -u
ID="$1"; NAME="${2:-$1}"; WT="/tmp/wt-$NAME"; OUT="/verif/seeded/$NAME"
mkdir -p "$OUT"
cp "$WT/_seed/patch.diff" "$OUT/patch.diff" || exit 1
cp "$WT/_seed/seed_demo.rs" "$OUT/seed_demo.rs" 2>/dev/null || cp "$WT/tests/seed_demo.rs" "$OUT/seed_demo.rs"
cp "$WT/_seed/notes.md" "$OUT/notes.md" 2>/dev/null
cd "$WT" || exit 1
# 1. change applied: suite passes (except demo), demo fails
git checkout -q -- . ; git apply "$OUT/patch.diff" || { echo "patch does not apply"; exit 1; }
cp "$OUT/seed_demo.rs" tests/seed_demo.rs
# the baseline runner (process per test); a hanging racy test is terminated by the profile's slow-timeout
cargo nextest run --workspace --no-fail-fast --tool-config-file pb:/w/lib/nextest.toml --profile pb --test-threads 8 --offline -E 'not test(seed_demo) and not binary(seed_demo)' < /dev/null > "$OUT/suite_with_change.log" 2>&1; SUITE=$?
timeout 600 cargo test --offline --test seed_demo < /dev/null > "$OUT/demo_with_change.log" 2>&1; DEMO_WITH=$?
# 2. change removed: demo passes
git checkout -q -- src xs.nu Cargo.toml 2>/dev/null
timeout 600 cargo test --offline --test seed_demo < /dev/null > "$OUT/demo_without_change.log" 2>&1; DEMO_WITHOUT=$?
git apply "$OUT/patch.diff"
echo "suite_with_change_exit=$SUITE demo_with_change_exit=$DEMO_WITH demo_without_change_exit=$DEMO_WITHOUT"
grep -E "Summary|FAIL|TIMEOUT" "$OUT/suite_with_change.log" | head -5
cat > "$OUT/result.env" <<EOT
suite_with_change_exit=$SUITE
demo_with_change_exit=$DEMO_WITH
demo_without_change_exit=$DEMO_WITHOUT
EOT
