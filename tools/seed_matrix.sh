#!/bin/bash
# usage: tools/seed_matrix.sh [tier]   -- for every seeded/<id>: apply, run the owning property's check, revert;
# writes seeded/<id>/meta.json and seeded/MATRIX.md
TIER="${1:-quick}"
cd /verif
# evidence and replays of runs against changed trees never land in /verif
export XSMC_OUT=/tmp/xsmc-seed-out; mkdir -p "$XSMC_OUT"
echo "| seed | property | existing suite with change | demo with / without change | ./check $TIER | first reported violation |" > seeded/MATRIX.md
echo "|---|---|---|---|---|---|" >> seeded/MATRIX.md
for d in seeded/C*/; do
  name=$(basename $d); id=${name%%-*}
  # a change that breaks a neighbouring property instead of the one it was aimed at
  [ -f "$d/CHECKED_BY" ] && id=$(cat "$d/CHECKED_BY")
  [ -f "$d/patch.diff" ] || continue
  if [ -f "$d/OBSOLETE" ]; then echo "| $name | $id | - | - | skipped | obsolete: $(head -1 $d/OBSOLETE) |" >> seeded/MATRIX.md; continue; fi
  PATCH="/verif/$d/patch.diff"; [ -f "$d/patch.ported.diff" ] && PATCH="/verif/$d/patch.ported.diff"
  if ! git -C /repo apply --check "$PATCH" 2>/dev/null; then echo "$name: patch does not apply"; continue; fi
  git -C /repo apply "$PATCH"
  ./check $id $TIER > "$d/check_$TIER.log" 2>&1; RC=$?
  git -C /repo checkout -- .
  first=$(grep -m1 "^violation:" "$d/check_$TIER.log" | cut -c12-260 | tr '|' '/')
  python3 - "$d" "$id" "$RC" "$TIER" "$first" <<'PY'
import json,sys,os
d,idp,rc,tier,first=sys.argv[1:6]
env={}
if os.path.exists(d+"/result.env"):
    for l in open(d+"/result.env"):
        if '=' in l:
            k,v=l.strip().split('=',1); env[k]=v
notes=open(d+"/notes.md").read() if os.path.exists(d+"/notes.md") else ""
meta={"property":idp,
 "origin":"independent sub-agent given only the property text and a scratch worktree of /repo (nothing from /verif)",
 "what_it_needs_to_manifest":"see notes.md (written by the sub-agent)",
 "confirmed_in_scratch_worktree":{"existing_suite_with_change_exit":env.get("suite_with_change_exit"),"demo_with_change_exit":env.get("demo_with_change_exit"),"demo_without_change_exit":env.get("demo_without_change_exit"),
   "how":"tools/confirm_seed.sh: nextest baseline command on the patched worktree; cargo test --test seed_demo with and without patch.diff"},
 "check":{"command":f"./check {idp} {tier}","exit":int(rc),"detected":int(rc)==1,"first_violation":first}}
json.dump(meta,open(d+"/meta.json","w"),indent=1)
suite="pass" if env.get("suite_with_change_exit")=="0" else str(env.get("suite_with_change_exit"))
demo=("fail" if env.get("demo_with_change_exit") not in (None,"0") else "pass?")+" / "+("pass" if env.get("demo_without_change_exit")=="0" else "?")
open("/verif/seeded/MATRIX.md","a").write(f"| {os.path.basename(d.rstrip('/'))} | {idp} | {suite} | {demo} | exit {rc} | {first} |\n")
print(os.path.basename(d.rstrip('/')), "check exit", rc)
PY
done
